"""MANIFEST.setup_cmd: offline preparation (icontract into git-ignored .deps)."""
import os
import sys

HERE = os.path.dirname(os.path.dirname(os.path.abspath(__file__)))
sys.path.insert(0, HERE)
from vf import harness  # noqa: E402

ok = harness.ensure_deps(HERE)
print("icontract available" if ok else "icontract NOT installed: fallback decorator will be used")
os.makedirs(os.path.join(HERE, "evidence", "replays"), exist_ok=True)
sys.exit(0)
