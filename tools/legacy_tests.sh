#!/bin/bash
# Runs the repository's own tests under the legacy (tf_keras) runtime and prints the sorted list of failures.
# Used after every "fix:" commit to show that no test that passed before fails now.
cd /repo && TF_USE_LEGACY_KERAS=1 PROTOCOL_BUFFERS_PYTHON_IMPLEMENTATION=python TF_CPP_MIN_LOG_LEVEL=3 CUDA_VISIBLE_DEVICES= \
  timeout 3000 /venv/bin/python -m pytest -q -p no:cacheprovider -n 8 --timeout=900 --continue-on-collection-errors -rf tests qkeras 2>&1 \
  | grep -E "^(FAILED|ERROR)|passed|failed" | sed 's/ - .*//' | sort
