#!/usr/bin/env python3
"""Regenerates MANIFEST.json from the table below (keeps it schema-valid)."""
import json
import os

HERE = os.path.dirname(os.path.dirname(os.path.abspath(__file__)))

BUILT = {}  # pid -> dict(technique=..., text=..., note=..., design_ref=...)


def reg(pid, technique, text, note, ref):
  BUILT[pid] = dict(technique=technique, text=text, note=note, ref=ref)


NOTE_COMMON = ("Trusted: the reference model in vf/ref (written from the docstrings/"
               "property statement), numpy float64 arithmetic on dyadic values, TF eager "
               "kernels, tf_keras as the runtime (TF_USE_LEGACY_KERAS=1). Held = no "
               "violation on the executions listed in the evidence file, nothing more.")

exec(open(os.path.join(HERE, "tools", "manifest_table.py")).read())

checks = []
for pid in sorted(BUILT):
  b = BUILT[pid]
  checks.append({
      "property_id": pid,
      "quick_cmd": "./check %s --tier quick" % pid,
      "thorough_cmd": "./check %s --tier thorough" % pid,
      "evidence_file": "/verif/evidence/%s.json" % pid,
      "replay_cmd_template": "./check %s --replay {path}" % pid,
      "engine": "vf",
      "level_claimed": {"category": "exploration", "text": b["text"], "design_ref": b["ref"]},
      "level_note": b["note"] + " " + NOTE_COMMON,
      "technique": b["technique"],
  })

props = [json.loads(l)["id"] for l in open(os.path.join(HERE, "properties.jsonl"))]
na = [{"property_id": p, "reason": NOT_APPLICABLE.get(p, "check not built yet in this session (runtime monitoring does apply; see DESIGN.md section 5)")}
      for p in props if p not in BUILT]

manifest = {
    "version": 1,
    "setup_cmd": "/venv/bin/python tools/setup.py",
    "hooks": {
        "guard": "QKERAS_VERIF",
        "enable": "no in-repo hooks: monitors attach from outside (class/function wrapping, contracts, audit hooks, sys.monitoring) in worker processes that import /repo's working tree; QKERAS_VERIF=1 is exported to workers for completeness",
        "baseline_off_cmd": "cd /repo && /venv/bin/python -m pytest -ra -q -p no:cacheprovider --timeout=900 --continue-on-collection-errors",
        "source_commits": [],
        "add_only": True,
    },
    "engines": [{
        "name": "vf", "path": "/verif/vf",
        "serves_properties": sorted(BUILT),
        "kind_free_text": "runtime monitoring: generated/hostile workloads executed against the real code in worker processes; wrappers, contracts, audit hooks, controlled RNG stream, snapshot/compare hooks and reference-model oracles decide violated / held-on-observed / inconclusive",
    }],
    "checks": checks,
    "notes": "All checks: ./check <id> --tier quick|thorough [--replay file]; VERIF_SEED and VERIF_TIER honoured. Known findings: known_findings.json (committed, never written at run time). Exit 0 held on observed / 1 VIOLATION / 3 INCONCLUSIVE.",
    "not_applicable": na,
}
with open(os.path.join(HERE, "MANIFEST.json"), "w") as f:
  json.dump(manifest, f, indent=1)
print("MANIFEST.json: %d checks, %d not_applicable" % (len(checks), len(na)))
