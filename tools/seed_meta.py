#!/usr/bin/env python3
"""Fills seeded/<id>-<tag>/meta.json 'needs_to_manifest' / 'summary' from the table below (text condensed from the
independent sub-agents' reports; their full NOTES.md is kept next to each patch)."""
import json, os
HERE = os.path.dirname(os.path.dirname(os.path.abspath(__file__)))
T = {
 "C01-A": ("quantized_bits 1-bit dispatch `unsigned_bits > 0` -> `self.bits > 1`: the unsigned 1-bit format takes the sign branch and emits {0,1} instead of {0, 2^(integer-1)}",
           "bits=1 with keep_negative=False and integer != 1, any positive input; min()/max() still enclose, only a code-set / step check sees it"),
 "C01-B": ("leaky quantized_relu: clip bound of the negative branch left at -1 instead of -slope after a 'simplification'",
           "negative_slope>0, use_sigmoid=0 and an input below -(2^integer + step/(2*slope)) so that the negative side saturates"),
 "C02-A": ("quantized_bits lower clip bound rewritten as -m*keep_negative + symmetric",
           "keep_negative=False together with symmetric=1 and an input below 1.5 steps (0 and all negatives map to +1 step)"),
 "C02-B": ("_round_through uses sign(x)*floor(|x|+0.5) instead of tf.round",
           "an input at exactly 0.49999997 steps (the float32 neighbour below the first breakpoint), or bits>=25 with odd codes in [2^23,2^24)"),
 "C03-A": ("_need_exponent_sign_bit_check: max_value > 1 -> >= 1", "max_value == 1 exactly and an input in the lower half of the exponent range, or 0"),
 "C03-B": ("quantized_po2 sign computed with where(|x| < epsilon, +1, sign(x))", "a strictly negative non-zero input with |x| < 1e-7"),
 "C04-A": ("_get_least_squares_scale: `is not None` bound test replaced by truthiness", "alpha='auto_po2' with an exponent bound equal to 0 and the other bound unset or 0, data whose unclipped scale lies beyond the bound"),
 "C04-B": ("ternary: tanh(x) applied before the threshold comparison", "alpha=None (constructor default) and an input with threshold <= |x| < atanh(threshold)"),
 "C05-A": ("_get_least_squares_scale: `is not None` bound test replaced by truthiness", "quantized_bits alpha='auto_po2', min/max_po2_exponent == 0 with the other unset, data whose scale falls beyond the bound"),
 "C05-B": ("epsilon dropped inside the po2 rounding log", "alpha='auto_po2', an all-zero channel and no min_po2_exponent: exposed scale 0 / NaN for that channel"),
 "C06-A": ("quantized_linear auto scale: stored with stop_gradient but the un-stopped tensor is used in __call__", "alpha='auto' (not auto_po2) and an input of rank >= 2: only the arg-max element per channel gets a wrong gradient"),
 "C06-B": ("quantized_relu_po2 surrogate rewritten as relu(x,slope) then clip(0,max_value)", "negative_slope and max_value set together; gradient of negative inputs becomes 0, forward unchanged at qnoise_factor=1"),
 "C07-A": ("BaseQuantizer.build tests the truthiness of qnoise_factor", "use_variables=True, factor set to 0.0 before the first (traced) call, factor raised afterwards: the graph keeps the constant 0"),
 "C07-B": ("QNoiseScheduler.calculate_qnoise_factor: freq < start -> <= start", "start == finish and that step is an update step: factor 0 instead of 1 at the finish step"),
 "C08-A": ("_round_through inference branch of stochastic configurations uses floor(x+0.5)", "stochastic-rounding configuration at learning phase 0 and an input that is exactly a half-LSB tie with an even floor code"),
 "C08-B": ("stochastic_round rewritten as floor(scale_x + uniform)", "training phase, an exact-code input of magnitude >= 2 steps and a draw within one ulp of 1 (float32 n+u rounds up before the floor)"),
 "C09-A": ("quantized_bits.get_config flattens post_training_scale with np.ravel", "auto alpha with a post-training scale that is not laid out on the last axis (e.g. the per-row scale of scale_axis=0)"),
 "C09-B": ("quantized_hswish.get_config allow-list omits scale_axis", "quantized_hswish with alpha auto/auto_po2, a non-default scale_axis and an input of rank >= 2"),
 "C10-A": ("safe_eval.IsNum rewritten with str.isdigit", "a float literal in exponent form (1e-05, 2.5E-2, 1e+16), hand written or produced by str() for |v| < 1e-4"),
 "C10-B": ("ternary.__str__ tests the truthiness of threshold", "ternary with threshold exactly 0 (valid zero dead band): printed text re-parses with the default threshold 0.33"),
 "C11-A": ("QGRUCell implementation=1, reset_after: candidate recurrent bias added after the reset gate", "reset_after=True, implementation=1, use_bias=True and a non-zero recurrent bias (bias initialiser is zeros)"),
 "C11-B": ("QConv2D groups>1 branch passes self.kernel instead of the quantized kernel", "groups > 1 together with a kernel quantizer or mask"),
 "C12-A": ("utils.get_config falls back to the class entry per parameter", "a layer with both a (partial) name entry and a class entry: missing parameters are filled from the class entry, {} name entries no longer opt out"),
 "C12-B": ("transfer_weights copies trainable_weights only", "transfer_weights=True and non-default BatchNormalization moving statistics or a frozen layer"),
 "C13-A": ("QBatchNormalization.get_config omits None entries", "a QBatchNormalization built with an explicitly None beta/gamma/mean/variance quantizer (constructor defaults are po2 quantizers)"),
 "C13-B": ("QActivation.get_config stores str(quantizer)", "an object-form activation with an option __str__ does not print (relu_upper_bound, is_quantized_clip, qnoise_factor) and inputs reaching the bound"),
 "C14-A": ("po2 exponent extraction clamps |weight| at epsilon", "a wide po2 quantizer (quantized_po2 bits>=7 / quantized_relu_po2 bits>=6) and a weight on the quantizer's floor (zero / pruned / negative under relu_po2)"),
 "C14-B": ("BN fusing terms computed before the quantized weights are written back", "fused QConv2D/QDepthwiseConv2D with use_bias=True, a bias quantizer and an off-grid bias (first export only)"),
 "C15-A": ("unfold_model._clone_weights skips layers without trainable weights", "a model that besides folded layers holds a frozen layer or a BatchNormalization(center=False, scale=False)"),
 "C15-B": ("QConv2DBatchnorm quantizes the folded bias only when use_bias", "use_bias=False together with a bias quantizer"),
 "C16-A": ("get_exp uses frexp (floor) instead of ceil(log2(max_value))", "a po2 operand with a non power-of-two max_value > 1 whose log2 has fraction >= 0.5 (3, 6, 7, 12) paired with a fixed-point operand, values near the top of both ranges"),
 "C16-B": ("Mux sign-bit rule keyed on the input operand only", "unsigned weights (quantized_relu / relu_po2) with a binary +-1 or ternary input"),
 "C17-A": ("accumulator growth ceil(round(log2 N, 4))", "N in (2^k, 2^k(1+3.5e-5)) with k >= 15, e.g. 32769 terms"),
 "C17-B": ("FixedPointAdder fractional bits use the result's sign bit", "operands of mixed signedness where the unsigned one has strictly more fractional bits"),
 "C18-A": ("is_inference: po2 weight type capped by the signed maximum of the weights", "QTools(is_inference=True), po2 kernel/bias whose largest-magnitude value is negative and an octave above the largest positive one"),
 "C18-B": ("analyze_accumulator negative-side bound multiplied by (x_min < 0)", "a non-negative input range (after quantized_relu) and a negative-dominated output channel"),
 "C19-A": ("Conv2D operation count uses the dilated kernel extent", "Conv2D with dilation_rate > 1 and kernel > 1"),
 "C19-B": ("extract_energy_sum/profile: `get(class) or default`", "a cost setting that maps a class to an empty key list with a non-empty default"),
 "C20-A": ("layer_indexes stored as set(...) if truthy else None", "layer_indexes=[] (quantize nothing) becomes None (no restriction)"),
 "C20-B": ("_act_size memoises the output element count per layer name", "a trial whose same-named layer has another output shape than the reference (tune_filters with a factor != 1)"),
}
H = {
 "C20-A": "MISSED by the first evaluation (exit 0): no scenario passed an empty selection. Scenarios `empty_selection.*` (layer_indexes=[]) and `single_index.*` were added (and the domain test now covers unselected layers, whose kernel decision the library asks for anyway); re-evaluated: CAUGHT (excluded_layer_changed / not_in_layer_indexes)",
 "C07-A": "check strengthened after reading the sub-agent's description and before the first evaluation: a 'traced_variable' way (factor set before build, quantizer traced in a tf.function, later factors through the Variable) was added; the earlier eager-only workload could not have seen it",
 "C08-A": "exact half-way tie inputs added to the inference comparison before evaluation (random inputs never hit a tie)",
 "C08-B": "the two extreme legal draws u=0 and u=1-2^-23 added to the controlled stream before evaluation (grid draws never come within an ulp of 1)",
 "C09-B": "quantized_hswish got 'auto'/'auto_po2' alpha in the option lattice before evaluation (scale_axis is functional only with an auto scale)",
 "C10-B": "threshold 0.0 (falsy but meaningful) added to the ternary option lattice before evaluation; falsy values were added for qnoise_factor and the exponent bounds too",
 "C12-B": "weight-transfer comparison extended from selected layers to every layer before evaluation (BatchNormalization statistics of unselected layers were not compared)",
 "C13-A": "QBatchNormalization variants with explicitly None quantizers added to the model generator before evaluation",
 "C15-A": "a frozen conv and a statistics-only BatchNormalization added to the fold/unfold model generator before evaluation",
 "C16-A": "an 'observed operands' path (operand values taken from the running quantizers, non power-of-two max_value) was added before evaluation; the grid only used power-of-two max_value",
 "C18-A": "the data type map is now built and checked for is_inference=False and True (before evaluation); it was False only",
}
for k, (summary, needs) in T.items():
  p = os.path.join(HERE, "seeded", k, "meta.json")
  if os.path.exists(p):
    m = json.load(open(p))
    m["change"] = summary
    m["needs_to_manifest"] = needs
    if k in H:
      m["history"] = H[k]
    json.dump(m, open(p, "w"), indent=1)
    print("updated", k, "caught_by", m.get("caught_by"))
