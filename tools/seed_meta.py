#!/usr/bin/env python3
"""Fills seeded/<id>-<tag>/meta.json 'needs_to_manifest' / 'summary' from the table below (text condensed from the
independent sub-agents' reports; their full NOTES.md is kept next to each patch)."""
import json, os
HERE = os.path.dirname(os.path.dirname(os.path.abspath(__file__)))
T = {
 "C01-A": ("quantized_bits 1-bit dispatch `unsigned_bits > 0` -> `self.bits > 1`: the unsigned 1-bit format takes the sign branch and emits {0,1} instead of {0, 2^(integer-1)}",
           "bits=1 with keep_negative=False and integer != 1, any positive input; min()/max() still enclose, only a code-set / step check sees it"),
 "C01-B": ("leaky quantized_relu: clip bound of the negative branch left at -1 instead of -slope after a 'simplification'",
           "negative_slope>0, use_sigmoid=0 and an input below -(2^integer + step/(2*slope)) so that the negative side saturates"),
 "C02-A": ("quantized_bits lower clip bound rewritten as -m*keep_negative + symmetric",
           "keep_negative=False together with symmetric=1 and an input below 1.5 steps (0 and all negatives map to +1 step)"),
 "C02-B": ("_round_through uses sign(x)*floor(|x|+0.5) instead of tf.round",
           "an input at exactly 0.49999997 steps (the float32 neighbour below the first breakpoint), or bits>=25 with odd codes in [2^23,2^24)"),
 "C03-A": ("_need_exponent_sign_bit_check: max_value > 1 -> >= 1", "max_value == 1 exactly and an input in the lower half of the exponent range, or 0"),
 "C03-B": ("quantized_po2 sign computed with where(|x| < epsilon, +1, sign(x))", "a strictly negative non-zero input with |x| < 1e-7"),
 "C04-A": ("_get_least_squares_scale: `is not None` bound test replaced by truthiness", "alpha='auto_po2' with an exponent bound equal to 0 and the other bound unset or 0, data whose unclipped scale lies beyond the bound"),
 "C04-B": ("ternary: tanh(x) applied before the threshold comparison", "alpha=None (constructor default) and an input with threshold <= |x| < atanh(threshold)"),
 "C05-A": ("_get_least_squares_scale: `is not None` bound test replaced by truthiness", "quantized_bits alpha='auto_po2', min/max_po2_exponent == 0 with the other unset, data whose scale falls beyond the bound"),
 "C05-B": ("epsilon dropped inside the po2 rounding log", "alpha='auto_po2', an all-zero channel and no min_po2_exponent: exposed scale 0 / NaN for that channel"),
 "C06-A": ("quantized_linear auto scale: stored with stop_gradient but the un-stopped tensor is used in __call__", "alpha='auto' (not auto_po2) and an input of rank >= 2: only the arg-max element per channel gets a wrong gradient"),
 "C06-B": ("quantized_relu_po2 surrogate rewritten as relu(x,slope) then clip(0,max_value)", "negative_slope and max_value set together; gradient of negative inputs becomes 0, forward unchanged at qnoise_factor=1"),
 "C07-A": ("BaseQuantizer.build tests the truthiness of qnoise_factor", "use_variables=True, factor set to 0.0 before the first (traced) call, factor raised afterwards: the graph keeps the constant 0"),
 "C07-B": ("QNoiseScheduler.calculate_qnoise_factor: freq < start -> <= start", "start == finish and that step is an update step: factor 0 instead of 1 at the finish step"),
 "C08-A": ("_round_through inference branch of stochastic configurations uses floor(x+0.5)", "stochastic-rounding configuration at learning phase 0 and an input that is exactly a half-LSB tie with an even floor code"),
 "C08-B": ("stochastic_round rewritten as floor(scale_x + uniform)", "training phase, an exact-code input of magnitude >= 2 steps and a draw within one ulp of 1 (float32 n+u rounds up before the floor)"),
 "C09-A": ("quantized_bits.get_config flattens post_training_scale with np.ravel", "auto alpha with a post-training scale that is not laid out on the last axis (e.g. the per-row scale of scale_axis=0)"),
 "C09-B": ("quantized_hswish.get_config allow-list omits scale_axis", "quantized_hswish with alpha auto/auto_po2, a non-default scale_axis and an input of rank >= 2"),
}
for k, (summary, needs) in T.items():
  p = os.path.join(HERE, "seeded", k, "meta.json")
  if os.path.exists(p):
    m = json.load(open(p))
    m["change"] = summary
    m["needs_to_manifest"] = needs
    json.dump(m, open(p, "w"), indent=1)
    print("updated", k, "caught_by", m.get("caught_by"))
