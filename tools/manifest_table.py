# pid, technique, level text, level note, design ref
NOT_APPLICABLE = {}

reg("C01", "runtime monitoring: membership oracle on every eager call over the full configuration lattice x breakpoint probes; the same oracle online under the repository's own tests (pytest plugin); configurations also reached by attribute re-assignment, traced tf.function calls, per-channel tensor scales",
    "Every configuration of the fixed-point lattice (bits 1..8 quick / ..16 thorough) is executed on a probe set holding every code and rounding breakpoint +-2 ulp, the saturation edges, zeros/denormals and random tensors of rank 1..4; an exact dyadic-arithmetic oracle decides code membership, the 2^bits bound, min()/max() enclosure and range()==reachable set. Exploration, because inputs are sampled at the boundaries that matter, not enumerated.",
    "Domain: |x| < 2^22 output grains (float32 absorption), supported slopes/bounds only.", "5/C01")

reg("C02", "runtime monitoring: exact dyadic reference model compared element-wise on every breakpoint neighbourhood; monotonicity and idempotence oracles",
    "Same lattice and probe sets as C01; every output is compared with the exact projection e = clip(s(x)/step, lo, hi) (|code - e| <= 1/2, ties either way), outputs must be non-decreasing over the sorted probes and q(q(x)) == q(x) for linear/plain-ReLU formats. Exploration over boundary-dense inputs.",
    "tanh/sigmoid surrogates get 8 float32 ulps of slack; inversions of TF's own tanh/sigmoid kernels inside a tie band are not counted.", "5/C02")

reg("C03", "runtime monitoring: frexp-exact power-of-two oracle, independent exponent-interval rule, banded nearest/floor exponent reference, monotone/idempotent/min-max checks; membership oracle online under the repository's own tests",
    "All (class, bits 2..8, max_value, slope, rounding mode) configurations x every exponent breakpoint (+-ulps and +-2e-4), zeros/denormals, the epsilon floor, the max_value edge and log-uniform random tensors of rank 1..4.",
    "Inside |log2|x| - breakpoint| <= min(3e-5, 6e-7*(|log2 x|+1)) either neighbour is accepted (float32 log); |x| below 2^22 times the largest code (positive inputs of relu_po2 with max_value: unbounded).", "5/C03")

reg("C04", "runtime monitoring: code-set / sign / threshold oracles on outputs plus read-back of `scale` against an independent group-wise least-squares model; construction routes (alpha re-assigned, _set_trainable_parameter); code-set oracle online under the repository's own tests",
    "Binary/ternary (and the inference path of the stochastic classes) over alpha modes x use_01 x thresholds x scale_axis / elements_per_scale groupings x exponent bounds x adversarial tensors of rank 1..4; scale constancy per independently derived group, least-squares optimum, po2-ness and exponent clipping, ternary threshold rule incl. the documented auto iteration.",
    "Reference adds the library's epsilon to the denominator; rank-1 tensors with explicit grouping are observed only.", "5/C04")

reg("C05", "runtime monitoring: read-back of the exposed scale after every eager call; integer-code, per-channel, top-code, po2 and equivariance oracles",
    "Auto-scaled quantized_bits / quantized_linear over bits 2..8, integer 0..3, scale_axis / elements_per_scale / exponent bounds / frozen post-training scales, tensors of rank 1..4 with magnitudes 1e-6..1e6 and zero or pruned channels; y == scale*step*k with k an in-range integer, one positive scale per independently derived channel group, 'auto' top code, exact po2 scales, finiteness, q(2^j x) == 2^j q(x).",
    "Exponent bounds are read in the quantizer's own units (exposed scale / 2^unsigned_bits); equivariance ties in log2 are skipped and counted.", "5/C05")

reg("C06", "runtime monitoring: tf.GradientTape gradient of every quantizer compared with the documented surrogate's gradient table",
    "All differentiable quantizer classes x use_ste x qnoise_factor x slopes x bounds x alpha/auto scales x sigmoid flavours on 305 points spanning clipped and unclipped regions; gradient equals the surrogate's, is finite, not None and not identically zero on the unclipped range; forward value under the tape equals the plain call.",
    "Kinks/clip edges excluded by +-1e-2; use_ste=False means (1-f) times the surrogate gradient as documented.", "5/C06")

reg("C07", "runtime monitoring: interpolation oracle over four ways of setting the factor + online trace checker over the real QNoiseScheduler hooks",
    "Part A: 14 knob-bearing quantizer configurations x use_ste x {constructor, update before build, Variable-backed update after build, built-then-rebuilt} x sequences of three factors: q_f(x) == u + f(v-u), q_0 == documented surrogate, factor read-back. Part B: generated (start, finish, exponent, update_freq, freq_type, initial, epochs x steps) histories driven through the callback hooks on six model families; after every hook the factors of all knob-bearing quantizers (enumerated independently of the scheduler) are logged and checked: 0 before start, 1 from finish, never decreasing, all knobs equal, every knob-bearing quantizer driven.",
    "Hook order is Keras' documented order; exponent > 0.", "5/C07")

reg("C08", "runtime monitoring with schedule control: tf.random.uniform replaced by a controlled stream (equidistributed grid + seeded real draws); adjacency/unbiasedness/fixed-point oracles; inference equality",
    "All stochastic configurations (fixed point, ReLU incl. leaky, tanh, sigmoid, po2, relu_po2, binary, ternary, stochastic_binary/ternary) x ranks 1..3: every draw yields a representable code adjacent to the clipped input, the mean over K equidistributed draws equals the input to 1/K step (|x| for po2), codes are fixed points, and with the learning phase off outputs are bit-identical to the deterministic twin and repeatable.",
    "Unbiasedness is decided for the library's use of the uniform stream, not for TF's generator; binary/ternary only membership + inference equality.", "5/C08")

reg("C09", "runtime monitoring: three real rebuild routes per instance of the option lattice, functional comparison (outputs + scale) under a pinned RNG stream, registry lookups",
    "Every registered quantizer class x default / each single option / every pair of options (thorough: random cross products) is rebuilt through from_config(get_config()), get_quantizer on the JSON round-tripped serialized dict and the framework's deserialize with the library's custom objects; the rebuilt object must reproduce outputs and scale bit-for-bit on six probe tensors; lost options are identified by diffing constructor attributes.",
    "Options that cannot change forward outputs (var_name, use_variables, use_ste) are observed only.", "5/C09")

reg("C10", "runtime monitoring: differential of the real parser against ast.literal_eval with a recording stub, execution monitor (sys.addaudithook + file canary) on hostile strings, str()->get_quantizer functional round trip over the option lattice",
    "A: 16k generated call strings over the literal grammar (random whitespace, positional/keyword mixes, one separator-carrying literal at most) must give the stub exactly Python's args/kwargs (value and type); misordered calls must raise SyntaxError; lattice options written as Python calls must build the same object for all 14 classes; 20 payload families are parsed under an audit hook with a positive control. B: str(q) of every lattice instance must re-parse to a functionally equal quantizer; consumers' strings likewise.",
    "Audit hooks see CPython-level events only; tuples/hex/underscore ints are outside the statement.", "5/C10")

reg("C11", "runtime monitoring: reference-model oracle (stock tf_keras layer fed the layer's own quantizers applied to its weights) + quantizer-call monitor for accounting",
    "640 (quick) / 8000 (thorough) generated layer instances over 12 layer kinds x geometry x quantizer choices per tensor role, dyadic weights and inputs: output must equal the stock layer on q_i(w_i) followed by the activation quantizer (exact on dyadic data), and the call monitor must see each reported quantizer applied to exactly its own weight tensor; recurrent cases are also wrapped in QBidirectional, whose reported quantizers must be (by identity) the objects called while the layer runs, forward half first.",
    "QConv2DTranspose-family layers cannot run under TF 2.21; channels_last only.", "5/C11")

reg("C12", "runtime monitoring: snapshot/compare hooks around model_quantize + per-layer oracle from an independent reading of the dictionary semantics",
    "Generated float models (sequential and branched, 2..8 layers over 16 layer classes) x generated dictionaries (per-name, per-class, conflicting, partial, activation maps) x activation_bits x transfer_weights: topology, names, shapes, hyper-parameters preserved; selected layers carry the quantizers the quantized class builds from the configured strings; unselected layers untouched; caller's model, weights and dictionaries unmodified; weights transferred.",
    "Expected quantizers are obtained by constructing the quantized class directly from the strings.", "5/C12")

reg("C13", "runtime monitoring: three real round-trip routes per generated quantized model, bit-exact prediction and per-layer quantizer comparison",
    "Generated quantized models over every callable layer class of the custom-object table with non-default quantizer objects per tensor role and random weights; JSON+set_weights, clone_model and HDF5 save/load_qmodel (no user custom objects) must give bit-identical outputs on 3 batches (+predict) and identical quantizer class+config for every layer, cell and wrapped layer.",
    "Same process / same kernels, so bit equality is legitimate; QConv2DTranspose config-only.", "5/C13")

reg("C14", "runtime monitoring: weight snapshots before/after one and two exports; quantize-once, HW-tuple, BN-fusing-algebra, invariance and idempotence oracles",
    "Generated quantized models x quantizer family (fixed, po2, auto_po2, binary/ternary constant or auto, frozen with the library's utility) x weights with exact zeros and breakpoint values: stored weight == its quantizer applied once to the snapshot (paired by tensor meaning); dictionary relations sign*2^w / scale*w / plain; bn_inv and fused_bias equal the BN algebra; pooling factors; predictions unchanged and second export idempotent when all scales are data-independent.",
    "BN algebra compared to rtol 2e-5.", "5/C14")

reg("C15", "runtime monitoring: reference-model oracles for folded layers (conv followed by stock BN; conv with the quantized folded tensors) and fold/unfold model equivalence",
    "420 (quick) folded-layer configurations over both classes x folding mode x bias/center/scale x geometry x extreme BN statistics x quantizers, plus generated sequential/branched conv+BN models folded through model_quantize(enable_bn_folding=True) and unfolded again: which layers fold, folded-vs-float and folded-vs-unfolded predictions.",
    "Unquantized equality to 1e-4 relative; model-level float comparison with 20-bit quantizers.", "5/C15")

reg("C16", "runtime contracts (icontract postcondition, plain fallback) on MultiplierFactory.make_multiplier over an operand-type grid; exact Fraction value-lattice oracle with brute-force enumeration for small types",
    "All operand kind pairs (fixed signed/unsigned, po2 signed/unsigned, ternary, binary +-1, binary 0/1, float) built the way qtools builds them (qkeras quantizer -> quantizer factory), bits 1..8 quick / ..16 thorough with every int_bits / max_value setting plus random wide pairs: every product of operand extremes -- and every product of all value pairs for small types -- must lie in the reported output lattice (except min x min), zero representable, implementation kind as the operand kinds call for; the qkeras->qtools conversion itself is checked against the quantizer's documented lattice.",
    "po2 types capped at 10 bits in the grid (exponent magnitudes); lattices from vf/ref/types.py.", "5/C16")

reg("C17", "runtime contracts on AccumulatorFactory.make_accumulator, IAdder.make_quantizer and MergeFactory quantizers; exact extreme-sum / brute-force oracles and paired-call monotonicity monitor",
    "All multiplier output types of C16 x kernel shapes with N from 1 to 2^20+1 (2^k-1, 2^k, 2^k+1; dense and conv; with/without bias) x all adder operand pairs x merge layers: N*min, N*max, mixed extremes and resolution representable; sums of extremes (all sums for small types); LSB(result) <= finest operand LSB; range covers the summed magnitudes; widening an operand never narrows bits, int_bits, interval or LSB (pairs of calls generated together).",
    "Types with int_bits > bits - sign are read as integers (f = 0), the reading under which the library's ternary/binary types are meaningful.", "5/C17")

reg("C19", "runtime monitoring: brute-force loop-nest MAC counters as reference, spies (recording wrappers) on every energy helper and gate function, conservation / formula / selection oracles over recorded contributions",
    "Generated quantized and plain models over kernel 1..5, strides 1..3, same/valid/causal, dilation, groups, channels 1..8, pooling and six merge types x memory placements {dram,sram,fixed}^2 x rd_wr_on_io x min_sram_size x quantizers: reported operation counts (qtools and estimate routes) == loop-nest counts; every energy entry >= 0 and equal to an independent re-evaluation of the documented formulas from the recorded arguments; total == sum of recorded contributions; extracted sums/profiles == sums of the selected entries; the gates consulted are the documented ones; global config and caller dictionaries unmodified; geometry sweeps (strides / padding / dilation / static batch, a unit-stride transposed convolution) and cost settings keyed by Q class names, stock class names or default only.",
    "Reference counters are self-checked (two independent counters, executed all-ones Keras layer); a reference disagreement is a harness error, never a verdict.", "5/C19")

reg("C20", "runtime monitoring: recording/replaying hyper-parameter stub that enumerates the decision tree of the real AutoQKHyperModel (DFS / product / pairwise+random), per-leaf oracle from an independent resolution of the limits; contracts on ForgivingFactor.delta",
    "28 (quick) / 112 (thorough) scenarios = reference model x limit dictionary (per class, regex patterns incl. overlapping, allow-lists, default padding) x quantization config (small: exhaustive; library default: sampled) x tune_filters x layer_indexes: every value offered by every Choice and every quantizer of every trial model lies in {config entries with bits <= limit(layer, role)} and equals the stub's answer; excluded / softmax / linear layers untouched; one decision per pattern group; architecture and filter scaling as requested; size model recomputed independently; delta sign/zero/monotone/continuity/calibration on a parameter grid and online on every call; build() trial size and adjusted score.",
    "Search-space completeness is observed, not enforced (the statement is about soundness); spaces above the leaf cap are sampled and reported as non-exhaustive.", "5/C20")

reg("C18", "runtime monitoring: value-lattice membership oracle over tensors observed in the running model vs the types QTools reports; estimator upper-bound check on observed outputs",
    "Generated quantized models (1..3 dense/conv1d/conv2d/depthwise layers with QActivation between, +-bias, fan-in around powers of two, five weight-quantizer families, four activation families, random and saturated weights) fed with points of the source quantizer's lattice incl. all-max, all-min and per-channel sign-aligned extremal inputs: every observed pre-activation, quantized weight, bias and activation value (float32 -> Fraction) must belong to the value lattice of the reported accumulator (scale-adjusted for auto_po2), weight, bias and output types; analyze_accumulator must bound the observed output magnitude for the observed input ranges (also on a small-magnitude sub-range).",
    "Bit budgets keep float32 accumulation exact; auto_po2 follows the documented export-then-QTools flow; lattices from vf/ref/types.py.", "5/C18")
