# pid, technique, level text, level note, design ref
NOT_APPLICABLE = {}

reg("C01", "runtime monitoring: membership oracle on every eager call over the full configuration lattice x breakpoint probes",
    "Every configuration of the fixed-point lattice (bits 1..8 quick / ..16 thorough) is executed on a probe set holding every code and rounding breakpoint +-2 ulp, the saturation edges, zeros/denormals and random tensors of rank 1..4; an exact dyadic-arithmetic oracle decides code membership, the 2^bits bound, min()/max() enclosure and range()==reachable set. Exploration, because inputs are sampled at the boundaries that matter, not enumerated.",
    "Domain: |x| < 2^22 output grains (float32 absorption), supported slopes/bounds only.", "5/C01")
