# pid, technique, level text, level note, design ref
NOT_APPLICABLE = {}

reg("C01", "runtime monitoring: membership oracle on every eager call over the full configuration lattice x breakpoint probes",
    "Every configuration of the fixed-point lattice (bits 1..8 quick / ..16 thorough) is executed on a probe set holding every code and rounding breakpoint +-2 ulp, the saturation edges, zeros/denormals and random tensors of rank 1..4; an exact dyadic-arithmetic oracle decides code membership, the 2^bits bound, min()/max() enclosure and range()==reachable set. Exploration, because inputs are sampled at the boundaries that matter, not enumerated.",
    "Domain: |x| < 2^22 output grains (float32 absorption), supported slopes/bounds only.", "5/C01")

reg("C02", "runtime monitoring: exact dyadic reference model compared element-wise on every breakpoint neighbourhood; monotonicity and idempotence oracles",
    "Same lattice and probe sets as C01; every output is compared with the exact projection e = clip(s(x)/step, lo, hi) (|code - e| <= 1/2, ties either way), outputs must be non-decreasing over the sorted probes and q(q(x)) == q(x) for linear/plain-ReLU formats. Exploration over boundary-dense inputs.",
    "tanh/sigmoid surrogates get 8 float32 ulps of slack; inversions of TF's own tanh/sigmoid kernels inside a tie band are not counted.", "5/C02")

reg("C03", "runtime monitoring: frexp-exact power-of-two oracle, independent exponent-interval rule, banded nearest/floor exponent reference, monotone/idempotent/min-max checks",
    "All (class, bits 2..8, max_value, slope, rounding mode) configurations x every exponent breakpoint (+-ulps and +-2e-4), zeros/denormals, the epsilon floor, the max_value edge and log-uniform random tensors of rank 1..4.",
    "Inside |log2|x| - breakpoint| <= 3e-5 either neighbour is accepted (float32 log); |x| below 2^22 times the largest code.", "5/C03")

reg("C04", "runtime monitoring: code-set / sign / threshold oracles on outputs plus read-back of `scale` against an independent group-wise least-squares model",
    "Binary/ternary (and the inference path of the stochastic classes) over alpha modes x use_01 x thresholds x scale_axis / elements_per_scale groupings x exponent bounds x adversarial tensors of rank 1..4; scale constancy per independently derived group, least-squares optimum, po2-ness and exponent clipping, ternary threshold rule incl. the documented auto iteration.",
    "Reference adds the library's epsilon to the denominator; rank-1 tensors with explicit grouping are observed only.", "5/C04")
