#!/usr/bin/env python3
"""Regenerates DESIGN.md appendix E from seeded/*/meta.json."""
import glob, json, os, re
HERE = os.path.dirname(os.path.dirname(os.path.abspath(__file__)))
rows = []
for p in sorted(glob.glob(os.path.join(HERE, "seeded", "*", "meta.json"))):
  m = json.load(open(p))
  name = os.path.basename(os.path.dirname(p))
  b = m.get("baseline", {})
  rows.append("| %s | %s | %s | %s | %s |" % (
      name, m.get("change", "").replace("|", "/"), m.get("needs_to_manifest", "").replace("|", "/"),
      "%s/%s" % (b.get("still_passing", "?"), b.get("stable_pass_expected", "?")),
      ", ".join("%s %s" % (k, "CAUGHT" if v["exit"] == 1 else "missed (exit %d)" % v["exit"]) for k, v in m.get("checks", {}).items())
      + ((" - " + m["history"]) if m.get("history") else "")))
text = """## Appendix E: seeded changes written by independent sub-agents

Each change was written by a fresh sub-agent that was given only the property text and its own scratch
worktree of google/qkeras (nothing from /verif).  I confirmed every one with `tools/seeded.py` in a scratch
worktree: the patch applies, the library imports, the pinned baseline still passes its 90 tests, the agent's
demonstration fails with the change and passes without it; then the registered quick check was run against the
patched scratch tree (`VERIF_REPO_ROOT`, equivalent to `git -C /repo apply` + check + `git checkout`, but without
touching /repo while background sweeps read it).  `history` notes where a check was strengthened because the
change would have been (or was) missed by its first version.

| seeded change | what was changed | what it needs to manifest | baseline | quick check |
|----|----|----|----|----|
%s
""" % "\n".join(rows)
p = os.path.join(HERE, "DESIGN.md")
s = open(p).read()
if "## Appendix E: seeded changes" in s:
  s = s[:s.index("## Appendix E: seeded changes")].rstrip("\n") + "\n\n\n" + text
else:
  s = s.rstrip("\n") + "\n\n\n" + text
open(p, "w").write(s)
print(len(rows), "rows")
