#!/usr/bin/env python3
"""Regenerates DESIGN.md appendix E from seeded/*/meta.json."""
import glob, json, os, re
HERE = os.path.dirname(os.path.dirname(os.path.abspath(__file__)))
rows = []
for p in sorted(glob.glob(os.path.join(HERE, "seeded", "*", "meta.json"))):
  m = json.load(open(p))
  name = os.path.basename(os.path.dirname(p))
  b = m.get("baseline", {})
  rows.append("| %s | %s | %s | %s | %s |" % (
      name, m.get("change", "").replace("|", "/"), m.get("needs_to_manifest", "").replace("|", "/"),
      "%s/%s" % (b.get("still_passing", "?"), b.get("stable_pass_expected", "?")),
      ", ".join("%s %s" % (k, "CAUGHT" if v["exit"] == 1 else "missed (exit %d)" % v["exit"]) for k, v in m.get("checks", {}).items())
      + ((" - " + m["history"]) if m.get("history") else "")))
text = """## Appendix E: seeded changes written by independent sub-agents

Each change was written by a fresh sub-agent that was given only the property text and its own scratch
worktree of google/qkeras (nothing from /verif).  I confirmed every one with `tools/seeded.py` in a scratch
worktree: the patch applies, the library imports, the pinned baseline still passes its 90 tests, the agent's
demonstration fails with the change and passes without it; then the registered quick check was run against the
patched scratch tree (`VERIF_REPO_ROOT`, equivalent to `git -C /repo apply` + check + `git checkout`, but without
touching /repo while background sweeps read it).  `history` notes where a check was strengthened because the
change would have been (or was) missed by its first version.

Ten rounds, 294 changes (two per property and round; tags A/B ... I/J for all twenty properties, K/L for the twelve with the most earlier misses, M/N for the other eight, O/P for ten properties again, Q/R for the other ten and S/T for eight properties - two agents delivered a single change).  Round 1 asked for a change that
"needs something specific to manifest"; round 2 for regressions away from the obvious function (shared helpers,
constructor normalisation, cached state, build-then-modify, serialize-then-reuse, two cooperating edits); round 3
excluded those patterns and asked for overlooked clauses of the statement, alternative entry paths, shape / dtype /
magnitude corners and cross-module interactions; round 4 for well-motivated maintenance edits with an unintended
consequence (API modernisation, numerical-stability / performance tweaks, over-correcting fixes,
generalisations); round 5 for edits whose side effect lands in a code path shared with nothing else that is
exercised, leaving every reported attribute self-consistent.  First-evaluation result of the registered quick check of the
seeded property: round 1: 39 of 40 caught (C20-A missed), round 2: 24 of 40, round 3: 22 of 40, round 4: 28 of 40, round 5: 23 of 40, round 6: 13 of 24, round 7: 11 of 16, round 8: 16 of 20, round 9: 15 of 19, round 10: 7 of 15.  Every miss was
turned into a strengthening of the workload or the oracle (never a special case for the seeded input), after which
286 of the 294 are caught (C01-K, C05-M, C11-J, C11-L, C14-L, C15-K, C15-O and C19-J are left missed, each with its reason in its row); the strengthenings are what section 11 and the corrections log describe (construction routes,
second rebuild, parse history independence, argument spellings, frozen layers, focus models for rare conjunctions,
geometry sweeps with a static batch, persistence monitors, stressed reference, printed quantizer form, ...).  Two
seeds also exposed weaknesses of the *findings* machinery: C03-C was masked by a too coarse known-finding signature
(F-C03-3, now keyed by the platform's log2 shortfall) and C09-E led to a genuine defect of the unchanged tree
(tensor-valued `alpha` of `quantized_linear`, repaired in 09c5eb0); C18-G led to known finding F-C18-5.  Where a change written for one property is a
violation of a neighbouring statement only (C01-F, C04-E: training-phase / stochastic behaviour), the table names
the check that catches it.  Patches are stored against the /repo commit named in each meta.json (`repo_head`);
C09-E was rebased onto fix 09c5eb0, which touches the same lines (the original is kept next to it).

| seeded change | what was changed | what it needs to manifest | baseline | quick check |
|----|----|----|----|----|
%s
""" % "\n".join(rows)
p = os.path.join(HERE, "DESIGN.md")
s = open(p).read()
if "## Appendix E: seeded changes" in s:
  s = s[:s.index("## Appendix E: seeded changes")].rstrip("\n") + "\n\n\n" + text
else:
  s = s.rstrip("\n") + "\n\n\n" + text
open(p, "w").write(s)
print(len(rows), "rows")
