#!/usr/bin/env python3
"""Self-validation helper (never used by a registered command).

tools/mut.py <relfile> <old> <new> C01 [C02 ...]
Copies /repo to a scratch dir, replaces the first occurrence of <old> by <new>
in <relfile>, runs the quick checks against the copy (VERIF_REPO_ROOT) and
reports whether each fired.  The scratch copy is removed afterwards.
"""
import os, shutil, subprocess, sys, tempfile
rel, old, new = sys.argv[1:4]
pids = sys.argv[4:]
d = tempfile.mkdtemp(prefix="vfmut-", dir="/var/tmp")
try:
  subprocess.check_call(["rsync", "-a", "--exclude", ".git", "/repo/", d + "/"])
  p = os.path.join(d, rel)
  s = open(p).read()
  if old not in s:
    print("PATTERN NOT FOUND"); sys.exit(2)
  open(p, "w").write(s.replace(old, new, 1))
  r = subprocess.run(["/venv/bin/python", "-c", "import qkeras"], env=dict(os.environ, PYTHONPATH=d, TF_USE_LEGACY_KERAS="1", TF_CPP_MIN_LOG_LEVEL="3"), capture_output=True, text=True, cwd="/var/tmp")
  if r.returncode:
    print("MUTANT DOES NOT IMPORT", r.stderr[-500:]); sys.exit(2)
  for pid in pids:
    env = dict(os.environ, VERIF_REPO_ROOT=d, VERIF_NO_EVIDENCE="1")
    r = subprocess.run(["./check", pid, "--tier", os.environ.get("MUT_TIER", "quick")], cwd="/verif", env=env, capture_output=True, text=True)
    v = [l for l in r.stdout.splitlines() if l.startswith("VIOLATION")]
    inc = [l for l in r.stdout.splitlines() if l.startswith("INCONCLUSIVE")]
    print("%s: exit=%d violations=%d inconclusive=%d  %s" % (pid, r.returncode, len(v), len(inc), "CAUGHT" if r.returncode == 1 else "MISSED"))
    for l in (v + inc)[:int(os.environ.get("MUT_SHOW", "3"))]:
      print("    " + l[:260])
finally:
  shutil.rmtree(d, ignore_errors=True)
  import glob, time
  for r in glob.glob("/var/tmp/vf-replays-*"):      # scratch witness dirs of runs older than an hour
    if time.time() - os.path.getmtime(r) > 3600:
      shutil.rmtree(r, ignore_errors=True)
