#!/usr/bin/env python3
"""Maps every anchor line range of properties.jsonl / vf/props/*.py (line numbers refer to the
pinned snapshot f958418 of /repo) to the qualified names of the functions it overlaps, so that the
reach monitor keeps working after fix commits shift line numbers.  Output: vf/anchor_map.json"""
import glob, importlib.util, json, os, re, subprocess, sys, types
HERE = os.path.dirname(os.path.dirname(os.path.abspath(__file__)))
BASE = "f958418"
anchors = set()
for f in glob.glob(os.path.join(HERE, "vf", "props", "c*.py")):
  src = open(f).read()
  for m in re.finditer(r'\("((?:qkeras|tests)/[\w/\.]+\.py)",\s*(\d+),\s*(\d+)\)', src):
    anchors.add((m.group(1), int(m.group(2)), int(m.group(3))))
for l in open(os.path.join(HERE, "properties.jsonl")):
  p = json.loads(l)
  for mech in p["anchors"].get("mechanism", []):
    w = mech.get("where", "")
    for part in w.split(";"):
      part = part.strip()
      m = re.match(r"([\w/\.]+\.py):(.*)", part)
      if not m:
        continue
      for rng in m.group(2).split(","):
        rng = rng.strip()
        mm = re.match(r"(\d+)(?:-(\d+))?$", rng)
        if mm:
          a = int(mm.group(1)); b = int(mm.group(2) or a)
          anchors.add((m.group(1), a, b))
out = {}
cache = {}
def codes(rel):
  if rel in cache:
    return cache[rel]
  src = subprocess.run(["git", "-C", "/repo", "show", "%s:%s" % (BASE, rel)], capture_output=True, text=True).stdout
  res = []
  def walk(co):
    for c in co.co_consts:
      if isinstance(c, types.CodeType):
        lines = {ln for (_, _, ln) in c.co_lines() if ln}
        res.append((c.co_qualname, min(lines), max(lines), c.co_name))
        walk(c)
  walk(compile(src, rel, "exec"))
  cache[rel] = res
  return res
for rel, a, b in sorted(anchors):
  names = []
  for qn, lo, hi, name in codes(rel):
    if "<lambda>" in qn or "<listcomp>" in qn or "<genexpr>" in qn or "<dictcomp>" in qn:
      continue
    # a class body code object overlaps everything inside: keep functions only
    if lo <= b and hi >= a:
      names.append((qn, lo, hi))
  # drop enclosing class bodies when a method matches
  fn = [n for n in names if not any(o[0].startswith(n[0] + ".") for o in names if o is not n)]
  out["%s:%d-%d" % (rel, a, b)] = sorted({n[0] for n in fn})
json.dump(out, open(os.path.join(HERE, "vf", "anchor_map.json"), "w"), indent=1, sort_keys=True)
print(len(out), "anchors mapped;", sum(1 for v in out.values() if not v), "empty")
for k, v in out.items():
  if not v: print("  EMPTY", k)
