#!/usr/bin/env python3
"""Confirms and evaluates a seeded change written by an independent sub-agent.

  tools/seeded.py <PID> <tag> <patch.diff> <demo.py> "<what it needs to manifest>" [--checks C01,C02] [--legacy-demo]

Steps (all in a scratch worktree of /repo under /var/tmp, removed afterwards):
  1. git apply the patch; the library must still import;
  2. the pinned baseline command must still pass the 90 stable tests;
  3. the demonstration must fail with the change and pass without it;
  4. the registered quick checks are run against the scratch tree (VERIF_REPO_ROOT) and must report a
     VIOLATION (exit 1) for the seeded property.
The change is then kept as /verif/seeded/<PID>-<tag>/{patch.diff, demo.py, meta.json}.
Nothing is ever applied to /repo itself.
"""
import argparse
import json
import os
import shutil
import subprocess
import sys
import tempfile
import xml.etree.ElementTree as ET

HERE = os.path.dirname(os.path.dirname(os.path.abspath(__file__)))


def sh(cmd, **kw):
  return subprocess.run(cmd, capture_output=True, text=True, **kw)


def main():
  ap = argparse.ArgumentParser()
  ap.add_argument("pid")
  ap.add_argument("tag")
  ap.add_argument("patch")
  ap.add_argument("demo")
  ap.add_argument("needs")
  ap.add_argument("--checks", default=None)
  ap.add_argument("--skip-baseline", action="store_true")
  ap.add_argument("--tier", default="quick")
  a = ap.parse_args()
  checks = (a.checks or a.pid).split(",")
  scratch = tempfile.mkdtemp(prefix="seedchk-", dir="/var/tmp")
  os.rmdir(scratch)
  meta = {"property": a.pid, "tag": a.tag, "needs_to_manifest": a.needs, "ran": []}
  try:
    r = sh(["git", "-C", "/repo", "worktree", "add", "--detach", "-q", scratch, "HEAD"])
    assert r.returncode == 0, r.stderr
    meta["repo_head"] = sh(["git", "-C", "/repo", "rev-parse", "--short", "HEAD"]).stdout.strip()
    r = sh(["git", "-C", scratch, "apply", os.path.abspath(a.patch)])
    if r.returncode:
      print("PATCH DOES NOT APPLY:", r.stderr)
      return 2
    env = dict(os.environ, PYTHONPATH=scratch, TF_CPP_MIN_LOG_LEVEL="3", CUDA_VISIBLE_DEVICES="")
    r = sh(["/venv/bin/python", "-c", "import qkeras, sys; sys.exit(0 if qkeras.__file__.startswith('%s') else 3)" % scratch], env=env, cwd="/var/tmp")
    meta["imports"] = r.returncode == 0
    meta["ran"].append("import qkeras from the patched tree -> rc %d" % r.returncode)
    if r.returncode:
      print("DOES NOT IMPORT", r.stderr[-500:])
      return 2
    if not a.skip_baseline:
      base = json.load(open("/root/.vp/BASELINE.json"))
      junit = os.path.join("/var/tmp", "seed-junit-%d.xml" % os.getpid())
      cmd = ["/venv/bin/python", "-m", "pytest", "-q", "-p", "no:cacheprovider", "--timeout=900", "--continue-on-collection-errors",
             "-n", "8", "--junitxml=" + junit]
      sh(cmd, env=env, cwd=scratch)
      passed = set()
      for tc in ET.parse(junit).getroot().iter("testcase"):
        if not list(tc):
          passed.add("%s::%s" % (tc.get("classname"), tc.get("name")))
      os.unlink(junit)
      missing = sorted(set(base["stable_pass"]) - passed)
      meta["baseline"] = {"stable_pass_expected": len(base["stable_pass"]), "still_passing": len(base["stable_pass"]) - len(missing),
                          "now_failing": missing[:10]}
      meta["ran"].append("baseline suite in the patched tree: %d/%d stable tests pass" % (len(base["stable_pass"]) - len(missing), len(base["stable_pass"])))
      print("baseline:", meta["baseline"])
      if missing:
        print("REJECTED: the change is caught by the existing tests")
        return 3
    # demonstration
    demo_env = dict(env, TF_USE_LEGACY_KERAS="1", PROTOCOL_BUFFERS_PYTHON_IMPLEMENTATION="python")
    head = open(a.demo).read(600)
    if "KERAS3" in head.upper() and "LEGACY" not in head.upper():
      demo_env.pop("TF_USE_LEGACY_KERAS")
    # run a copy: python puts the script's own directory first on sys.path, and the agent's worktree
    # (which holds a clean qkeras/) must not shadow the patched tree
    ddir = tempfile.mkdtemp(prefix="seeddemo-", dir="/var/tmp")
    dcopy = os.path.join(ddir, "demo.py")
    shutil.copy(a.demo, dcopy)
    r1 = sh(["/venv/bin/python", dcopy], env=demo_env, cwd=ddir, timeout=1200)
    r0 = sh(["/venv/bin/python", dcopy], env=dict(demo_env, PYTHONPATH="/repo"), cwd=ddir, timeout=1200)
    shutil.rmtree(ddir, ignore_errors=True)
    meta["demo"] = {"with_change_rc": r1.returncode, "without_change_rc": r0.returncode, "with_change_tail": r1.stdout[-400:]}
    meta["ran"].append("demo.py with the change -> rc %d, without -> rc %d" % (r1.returncode, r0.returncode))
    print("demo: with change rc=%d, without rc=%d" % (r1.returncode, r0.returncode))
    if r1.returncode == 0 or r0.returncode != 0:
      print("REJECTED: demonstration does not discriminate", r1.stdout[-300:], r1.stderr[-300:], r0.stderr[-300:])
      return 4
    # my checks
    results = {}
    for pid in checks:
      e = dict(os.environ, VERIF_REPO_ROOT=scratch, VERIF_NO_EVIDENCE="1")
      r = sh(["./check", pid, "--tier", a.tier], cwd=HERE, env=e)
      v = [l for l in r.stdout.splitlines() if l.startswith("VIOLATION")]
      results[pid] = {"exit": r.returncode, "violations": len(v), "first": [l.split("# ", 1)[-1][:300] for l in v[:3]],
                      "inconclusive": [l[:200] for l in r.stdout.splitlines() if l.startswith("INCONCLUSIVE")][:3]}
      print("%s: exit=%d violations=%d -> %s" % (pid, r.returncode, len(v), "CAUGHT" if r.returncode == 1 else "MISSED"))
      for l in v[:3]:
        print("    " + l.split("# ", 1)[-1][:240])
    meta["checks"] = results
    meta["caught_by"] = [p for p, x in results.items() if x["exit"] == 1]
    meta["ran"].append("./check <id> --tier %s with VERIF_REPO_ROOT=<patched scratch worktree>: %s" % (
        a.tier, ", ".join("%s exit %d" % (p, x["exit"]) for p, x in results.items())))
    out = os.path.join(HERE, "seeded", "%s-%s" % (a.pid, a.tag))
    os.makedirs(out, exist_ok=True)
    old_meta = os.path.join(out, "meta.json")
    if "baseline" not in meta and os.path.exists(old_meta):      # re-evaluation with --skip-baseline: keep the first result
      try:
        prev = json.load(open(old_meta))
        if "baseline" in prev:
          meta["baseline"] = prev["baseline"]
      except Exception:      # pylint: disable=broad-except
        pass
    shutil.copy(a.patch, os.path.join(out, "patch.diff"))
    shutil.copy(a.demo, os.path.join(out, "demo.py"))
    with open(os.path.join(out, "meta.json"), "w") as f:
      json.dump(meta, f, indent=1)
    print("kept as", out)
    return 0
  finally:
    import glob, time
    for r in glob.glob("/var/tmp/vf-replays-*"):    # scratch witness dirs of runs older than an hour
      if time.time() - os.path.getmtime(r) > 3600:
        shutil.rmtree(r, ignore_errors=True)
    sh(["git", "-C", "/repo", "worktree", "remove", "--force", scratch])
    shutil.rmtree(scratch, ignore_errors=True)


if __name__ == "__main__":
  sys.exit(main())
