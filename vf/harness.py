"""Parent side of a check: shard over worker processes, fold results, decide.

No TensorFlow import here.  Workers are `python -m vf.worker ...` processes run
through subprocess with a hard timeout; a worker that dies or times out makes
the run inconclusive, never "held" and never "violated".
"""
import argparse
import hashlib
import importlib
import json
import os
import shutil
import subprocess
import sys
import tempfile
import time

from . import findings as findings_mod
from . import evidence as evidence_mod

ALL = ["C%02d" % i for i in range(1, 21)]

EXIT_OK, EXIT_VIOLATION, EXIT_INCONCLUSIVE = 0, 1, 3


def repo_root():
  # VERIF_REPO_ROOT is used only by vf/selftest (scratch copies with a seeded
  # change); registered commands never set it.
  return os.environ.get("VERIF_REPO_ROOT", "/repo")


def worker_env(here, keras3=False):
  env = dict(os.environ)
  env.update({
      "PROTOCOL_BUFFERS_PYTHON_IMPLEMENTATION": "python",
      "PYTHONHASHSEED": "0",
      "TF_ENABLE_ONEDNN_OPTS": "0",
      "CUDA_VISIBLE_DEVICES": "",
      "TF_CPP_MIN_LOG_LEVEL": "3",
      "OMP_NUM_THREADS": "1",
      "TF_NUM_INTRAOP_THREADS": "1",
      "TF_NUM_INTEROP_THREADS": "1",
      "PYTHONDONTWRITEBYTECODE": "1",
      "QKERAS_VERIF": "1",
      "VERIF_HOME": here,
  })
  if keras3:
    env.pop("TF_USE_LEGACY_KERAS", None)
  else:
    env["TF_USE_LEGACY_KERAS"] = "1"
  deps = os.path.join(here, ".deps")
  env["PYTHONPATH"] = os.pathsep.join([repo_root(), here, deps])
  return env


def ensure_deps(here):
  """icontract beside the repo's interpreter (offline wheelhouse).  Failure is
  not fatal: vf.monitors.contracts falls back to its own decorator."""
  deps = os.path.join(here, ".deps")
  if os.path.isdir(os.path.join(deps, "icontract")):
    return True
  os.makedirs(deps, exist_ok=True)
  lock = os.path.join(deps, ".lock")
  import fcntl
  with open(lock, "w") as lf:
    fcntl.flock(lf, fcntl.LOCK_EX)
    if os.path.isdir(os.path.join(deps, "icontract")):
      return True
    cmd = ["/venv/bin/pip", "install", "--quiet", "--no-index", "--find-links",
           "/opt/veriftools/wheels", "--target", deps, "icontract"]
    try:
      r = subprocess.run(cmd, capture_output=True, text=True, timeout=300)
      return r.returncode == 0
    except Exception:  # pylint: disable=broad-except
      return False


def scratch_base():
  base = os.environ.get("VERIF_SCRATCH") or "/var/tmp"
  os.makedirs(base, exist_ok=True)
  return base


def sweep_stale_scratch(hours=6.0):
  """Scratch directories of a harness that was killed (vp stop, timeout of the caller) are
  never removed by their owner; drop those older than any run can last."""
  base = scratch_base()
  now = time.time()
  for name in os.listdir(base):
    if name.startswith("vf-"):
      d = os.path.join(base, name)
      try:
        if now - os.path.getmtime(d) > hours * 3600:
          shutil.rmtree(d, ignore_errors=True)
      except OSError:
        pass


def run_workers(pid, tier, seed, nworkers, here, timeout, extra=None,
                keras3=False):
  sweep_stale_scratch()
  outdir = tempfile.mkdtemp(prefix="vf-%s-" % pid, dir=scratch_base())
  procs = []
  env = worker_env(here, keras3=keras3)
  env["VERIF_WORKDIR"] = outdir
  for w in range(nworkers):
    cmd = ["/venv/bin/python", "-X", "faulthandler", "-m", "vf.worker", pid,
           tier, str(seed), str(w), str(nworkers), outdir]
    if extra:
      cmd += extra
    log = open(os.path.join(outdir, "w%d.log" % w), "w")
    procs.append((w, subprocess.Popen(cmd, env=env, cwd=scratch_base(),
                                      stdout=log, stderr=subprocess.STDOUT),
                  log))
  deadline = time.time() + timeout
  results, problems = [], []
  for w, p, log in procs:
    left = max(1.0, deadline - time.time())
    try:
      rc = p.wait(timeout=left)
    except subprocess.TimeoutExpired:
      p.kill()
      p.wait()
      rc = "timeout"
    log.close()
    path = os.path.join(outdir, "w%d.json" % w)
    if rc == 0 and os.path.exists(path):
      with open(path) as f:
        results.append(json.load(f))
    else:
      tail = ""
      try:
        with open(os.path.join(outdir, "w%d.log" % w)) as f:
          tail = f.read()[-3000:]
      except OSError:
        pass
      problems.append({"worker": w, "rc": rc, "log_tail": tail})
  return outdir, results, problems


def fold(results):
  """Merge worker results."""
  import numpy as np
  merged = {
      "counters": {}, "violations": {}, "samples": [], "observations": {},
      "reach": {}, "harness_errors": [], "sets": {}, "evaluations": 0,
      "cases": 0, "skipped": {},
  }
  hashes = []
  for r in results:
    merged["evaluations"] += r.get("evaluations", 0)
    merged["cases"] += r.get("cases", 0)
    for k, v in r.get("counters", {}).items():
      merged["counters"][k] = merged["counters"].get(k, 0) + v
    for k, v in r.get("skipped", {}).items():
      merged["skipped"][k] = merged["skipped"].get(k, 0) + v
    for v in r.get("violations", []):
      key = json.dumps(v["sig"], sort_keys=True)
      slot = merged["violations"].setdefault(
          key, {"sig": v["sig"], "count": 0, "witnesses": [], "msg": v["msg"]})
      slot["count"] += v.get("count", 1)
      if len(slot["witnesses"]) < 3:
        slot["witnesses"].extend(v.get("witnesses", [])[:3 - len(slot["witnesses"])])
    if len(merged["samples"]) < 8:
      merged["samples"].extend(r.get("samples", [])[:2])
    for k, v in r.get("observations", {}).items():
      slot = merged["observations"].setdefault(k, {"count": 0, "example": v.get("example")})
      slot["count"] += v.get("count", 0)
    for k, v in r.get("reach", {}).items():
      slot = merged["reach"].setdefault(k, {"lines_hit": set(), "lines_total": v["lines_total"]})
      slot["lines_hit"].update(tuple(x) if isinstance(x, list) else x for x in v["lines_hit"])
    for k, v in r.get("sets", {}).items():
      merged["sets"].setdefault(k, set()).update(v)
    merged["harness_errors"].extend(r.get("harness_errors", []))
    hp = r.get("hash_file")
    if hp and os.path.exists(hp):
      hashes.append(np.load(hp))
  if hashes:
    merged["distinct_nontrivial"] = int(np.unique(np.concatenate(hashes)).size)
  else:
    merged["distinct_nontrivial"] = 0
  return merged


def decide(pid, tier, seed, merged, problems, mod, here, wall, replay_mode=False):
  kf = findings_mod.load(here)
  listed = findings_mod.for_property(kf, pid)
  out_lines = []
  unlisted, reproduced = [], []
  for key, v in sorted(merged["violations"].items()):
    hit = findings_mod.match(listed, v["sig"])
    if hit is not None:
      reproduced.append((hit, v))
    else:
      unlisted.append(v)
  seen_ids = set()
  for hit, v in reproduced:
    if hit["id"] in seen_ids:
      continue
    seen_ids.add(hit["id"])
    out_lines.append("KNOWN-FINDING: property=%s %s [%s] (observed %d times this run)" % (
        pid, hit["what"], hit["id"],
        sum(x[1]["count"] for x in reproduced if x[0]["id"] == hit["id"])))
  not_reproduced = [f["id"] for f in listed if f["id"] not in seen_ids]

  replay_dir = os.path.join(here, "evidence", "replays")
  os.makedirs(replay_dir, exist_ok=True)
  # stale replays of this property are removed on every run
  if os.environ.get("VERIF_NO_EVIDENCE"):
    replay_dir = tempfile.mkdtemp(prefix="vf-replays-", dir=scratch_base())
  if not replay_mode:
    for fn in os.listdir(replay_dir):
      if fn.startswith(pid + "-"):
        os.unlink(os.path.join(replay_dir, fn))
  for v in unlisted:
    h = hashlib.sha1(json.dumps(v["sig"], sort_keys=True).encode()).hexdigest()[:10]
    path = os.path.join(replay_dir, "%s-%s.json" % (pid, h))
    with open(path, "w") as f:
      json.dump({"property": pid, "tier": tier, "seed": seed, "sig": v["sig"],
                 "msg": v["msg"], "count": v["count"],
                 "witnesses": v["witnesses"]}, f, indent=1, default=str)
    out_lines.append("VIOLATION property=%s replay=%s  # %s :: %s" % (
        pid, path, json.dumps(v["sig"], sort_keys=True), v["msg"][:300]))

  # reach thresholds -> inconclusive
  inconclusive = []
  for p in problems:
    inconclusive.append("worker %s ended with %s" % (p["worker"], p["rc"]))
  for e in merged["harness_errors"][:5]:
    inconclusive.append("harness error: %s" % e.get("where", "")[:160] + " ... " + e.get("err", "")[-700:].replace("\n", " | "))
  if not replay_mode:
    thr = mod.thresholds(tier) if hasattr(mod, "thresholds") else {}
    for name, need in thr.items():
      have = merged["counters"].get(name, 0)
      if name == "distinct_nontrivial":
        have = merged["distinct_nontrivial"]
      if name == "evaluations":
        have = merged["evaluations"]
      if have < need:
        inconclusive.append("reach: %s=%d < %d" % (name, have, need))
    for name, r in merged["reach"].items():
      if r["lines_total"] and not r["lines_hit"]:
        inconclusive.append("reach: anchored code %s never executed" % name)

  status = EXIT_OK
  if unlisted:
    status = EXIT_VIOLATION
  elif inconclusive:
    status = EXIT_INCONCLUSIVE
    for r in inconclusive[:10]:
      out_lines.append("INCONCLUSIVE property=%s reason=%s" % (pid, r))

  if not replay_mode and not os.environ.get("VERIF_NO_EVIDENCE"):
    evidence_mod.write(here, pid, tier, seed, merged, mod, wall,
                       n_unlisted=len(unlisted),
                       known=[{"id": h["id"], "count": v["count"]} for h, v in reproduced],
                       known_not_reproduced=not_reproduced,
                       inconclusive=inconclusive, problems=problems)
  return status, out_lines


def load_mod(pid):
  return importlib.import_module("vf.props.%s" % pid.lower())


def main(argv, here):
  ap = argparse.ArgumentParser()
  ap.add_argument("pid")
  ap.add_argument("--tier", default=os.environ.get("VERIF_TIER", "quick"))
  ap.add_argument("--seed", type=int, default=int(os.environ.get("VERIF_SEED", "0") or 0))
  ap.add_argument("--replay", default=None)
  ap.add_argument("--workers", type=int, default=0)
  ap.add_argument("--keep", action="store_true")
  args = ap.parse_args(argv)
  pid = args.pid.upper()
  tier = args.tier if args.tier in ("quick", "thorough") else "quick"
  sys.path.insert(0, here)
  t0 = time.time()
  ensure_deps(here)
  mod = load_mod(pid)
  if args.replay:
    nworkers, extra = 1, ["--replay", os.path.abspath(args.replay)]
  else:
    nworkers = args.workers or getattr(mod, "WORKERS", {}).get(tier, 16)
    nworkers = min(nworkers, int(os.environ.get("VERIF_MAX_WORKERS", "16")))
    extra = None
  timeout = getattr(mod, "TIMEOUT", {}).get(tier, 900 if tier == "quick" else 5400)
  outdir, results, problems = run_workers(pid, tier, args.seed, nworkers, here,
                                          timeout, extra)
  # optional second configuration: reduced workload under the default Keras-3
  # runtime (deterministic quantizer-level properties only)
  if (not args.replay and tier == "thorough" and getattr(mod, "KERAS3_PASS", False)):
    outdir2, results2, problems2 = run_workers(
        pid, tier, args.seed, 4, here, timeout, ["--keras3"], keras3=True)
    results += results2
    problems += problems2
    if not args.keep:
      shutil.rmtree(outdir2, ignore_errors=True)
  try:
    merged = fold(results)
    status, lines = decide(pid, tier, args.seed, merged, problems, mod, here,
                           time.time() - t0, replay_mode=bool(args.replay))
  finally:
    if not args.keep:
      shutil.rmtree(outdir, ignore_errors=True)
  for ln in lines:
    print(ln)
  print("%s tier=%s seed=%d cases=%d evaluations=%d distinct_nontrivial=%d "
        "violations(unlisted)=%d known=%d wall=%.1fs -> %s" % (
            pid, tier, args.seed, merged["cases"], merged["evaluations"],
            merged["distinct_nontrivial"],
            sum(1 for ln in lines if ln.startswith("VIOLATION")),
            sum(1 for ln in lines if ln.startswith("KNOWN-FINDING")),
            time.time() - t0,
            {0: "HELD-ON-OBSERVED", 1: "VIOLATED", 3: "INCONCLUSIVE"}[status]))
  if problems:
    for p in problems[:3]:
      sys.stderr.write("worker %s rc=%s\n%s\n" % (p["worker"], p["rc"], p["log_tail"][-1500:]))
  return status
