"""C15 - batch-norm folding and unfolding preserve the network function at inference."""
import itertools
import json
import random

import numpy as np

PID = "C15"
RULE = ("layer cases: {QConv2DBatchnorm, QDepthwiseConv2DBatchnorm} x folding mode x use_bias x center x scale x strides x "
        "padding x dilation x filters/depth multiplier x BN statistics (variance 1e-6..1e3, gamma 0 / tiny / large / "
        "negative, large means) x quantizers {none, 8-bit fixed numeric alpha, auto_po2, po2} x optional activation; oracles: "
        "unquantized layer == conv followed by stock batch normalisation; get_folded_weights == independent formula; "
        "quantized layer == conv with the quantized folded kernel + quantized folded bias. model cases: generated "
        "sequential / branched conv+BN models folded through model_quantize(enable_bn_folding=True) "
        "(convert_to_folded_model), parameters assigned by variable, then unfold_model: which layers fold, prediction "
        "equality folded vs unfolded (exact) and vs the float source (wide quantizers, tolerance). Non-trivial = distinct "
        "layer configurations / models (hashed).")
ANCHORS = [("qkeras/qconv2d_batchnorm.py", 160, 301), ("qkeras/qconv2d_batchnorm.py", 329, 359),
           ("qkeras/qdepthwiseconv2d_batchnorm.py", 161, 306), ("qkeras/qdepthwiseconv2d_batchnorm.py", 334, 374),
           ("qkeras/bn_folding_utils.py", 35, 140), ("qkeras/utils.py", 483, 576), ("qkeras/utils.py", 668, 673)]
ASSUMPTIONS = [
    "unquantized equality is algebraic, not bitwise: tolerance 1e-4 * max|reference|",
    "quantized reference uses the layer's own get_folded_weights() values (checked against the formula separately), so a rounding tie cannot flip a code",
    "folded-vs-float comparison at model level uses 20-bit quantizers and a 2e-3 relative tolerance",
]
TIMEOUT = {"quick": 1200, "thorough": 5400}
KQ = [None, "quantized_bits(8,1,1,alpha=1.0)", "quantized_bits(4,0,1)", "quantized_po2(4)", "quantized_bits(6,2,1,alpha=1.0)"]
BQ = [None, "quantized_bits(8,3,1)", "quantized_po2(5)"]
AQ = [None, "quantized_relu(4,1)", "quantized_bits(6,2,1)"]


def thresholds(tier):
  return {"layer_cases": 150, "unquantized_equivalence_checked": 30, "folded_weights_formula_checked": 150,
          "quantized_reference_checked": 80, "model_cases": 8, "unfold_checked": 8, "fold_decisions_checked": 8,
          "distinct_nontrivial": 150}


def cases(tier, seed):
  rnd = random.Random(seed * 31 + 7)
  out = []
  n_layer = 420 if tier == "quick" else 6000
  for i in range(n_layer):
    stride = rnd.choice([1, 1, 2])
    out.append({"part": "layer", "cls": rnd.choice(["conv", "dw"]), "mode": rnd.choice(["ema_stats_folding", "batch_stats_folding"]),
                "use_bias": bool(rnd.randint(0, 1)), "center": rnd.random() < 0.8, "scale": rnd.random() < 0.8,
                "stride": stride, "pad": rnd.choice(["same", "valid"]), "dil": rnd.choice([1, 2]) if stride == 1 else 1,
                "k": rnd.choice([1, 2, 3]), "filters": rnd.randint(1, 4), "dm": rnd.randint(1, 2), "cin": rnd.randint(1, 3),
                "kq": rnd.choice(KQ) if i % 4 else None, "bq": rnd.choice(BQ) if i % 4 else None, "aq": rnd.choice(AQ),
                "var": rnd.choice([1e-6, 1e-3, 1.0, 1e3]), "gamma": rnd.choice(["normal", "zero_first", "tiny", "large", "negative"]),
                "mu": rnd.choice([1.0, 30.0])})
    if i % 9 == 0:      # a very small batch-norm epsilon with a nearly dead channel: var + eps far below 1e-7 is still var + eps
      out[-1].update(eps=1e-10, var=1e-9, gamma="tiny", mu=1e-3)
  n_model = 24 if tier == "quick" else 300
  for i in range(n_model):
    out.append({"part": "model", "mseed": rnd.randrange(1 << 30)})
  for i in range(6 if tier == "quick" else 60):
    out.append({"part": "sequential", "mseed": rnd.randrange(1 << 30)})
  rnd.shuffle(out)
  for i, c in enumerate(out):
    c["idx"], c["seed"] = i, seed
  return out


def run_layer(c, ctx):
  import tensorflow as tf
  import tensorflow.keras.backend as K
  import qkeras as qk
  rs = np.random.default_rng(c["seed"] * 8191 + c["idx"])
  cls = c["cls"]
  base = {"part": "layer", "cls": cls, "center": c["center"], "scale": c["scale"]}
  unq = c["kq"] is None and c["bq"] is None
  kw = dict(kernel_size=(c["k"], c["k"]), strides=(c["stride"],) * 2, padding=c["pad"], dilation_rate=c["dil"],
            use_bias=c["use_bias"], folding_mode=c["mode"], bias_quantizer=c["bq"], activation=c["aq"] if not unq else None,
            center=c["center"], scale=c["scale"], epsilon=c.get("eps", 1e-3))

  def mk():
    if cls == "conv":
      return qk.QConv2DBatchnorm(filters=c["filters"], kernel_quantizer=c["kq"], **kw)
    return qk.QDepthwiseConv2DBatchnorm(depth_multiplier=c["dm"], depthwise_quantizer=c["kq"], **kw)
  ok, l = ctx.call(dict(base, op="construct"), mk)
  if not ok:
    return
  x = rs.normal(0, 1, size=(2, 7, 7, c["cin"])).astype(np.float32)
  xt = tf.constant(x)
  ok, _ = ctx.call(dict(base, op="first_call"), lambda: l(xt, training=False))
  if not ok:
    return
  ctx.count("layer_cases")
  ctx.nontrivial(*[(k, str(v)) for k, v in sorted(c.items()) if k not in ("idx", "seed")])
  try:
    l.get_folded_weights()        # asked once *before* the parameters change: nothing may be remembered
  except Exception:  # pylint: disable=broad-except
    pass
  bn = l.batchnorm
  C = int(bn.moving_mean.shape[0])
  var = (c["var"] * np.abs(rs.normal(0, 1, C)) + (1e-7 if c["var"] > 1e-8 else 1e-11)).astype(np.float32)
  gam = rs.normal(0, 1, C).astype(np.float32)
  if c["gamma"] == "zero_first":
    gam[0] = 0.0
  elif c["gamma"] == "tiny":
    gam *= 1e-3
  elif c["gamma"] == "large":
    gam *= 50.0
  elif c["gamma"] == "negative":
    gam = -np.abs(gam)
  beta = rs.normal(0, 1, C).astype(np.float32)
  mu = (rs.normal(0, 1, C) * c["mu"]).astype(np.float32)
  if bn.gamma is not None:
    bn.gamma.assign(gam)
  else:
    gam = np.ones(C, np.float32)
  if bn.beta is not None:
    bn.beta.assign(beta)
  else:
    beta = np.zeros(C, np.float32)
  bn.moving_mean.assign(mu)
  bn.moving_variance.assign(var)
  kvar = l.kernel if cls == "conv" else l.depthwise_kernel
  kernel = rs.normal(0, 0.7, size=kvar.shape).astype(np.float32)
  kvar.assign(kernel)
  if c["use_bias"]:
    bias = rs.normal(0, 1, size=l.bias.shape).astype(np.float32)
    l.bias.assign(bias)
  else:
    bias = np.zeros(C, np.float32)
  ok, y = ctx.call(dict(base, op="call"), lambda: np.asarray(l(xt, training=False)))
  if not ok:
    return
  conv = (lambda inp, k: K.conv2d(inp, k, strides=(c["stride"],) * 2, padding=c["pad"], dilation_rate=(c["dil"],) * 2)) if cls == "conv" else \
      (lambda inp, k: K.depthwise_conv2d(inp, k, strides=(c["stride"],) * 2, padding=c["pad"], dilation_rate=(c["dil"],) * 2))
  eps = float(bn.epsilon)
  # independent folding formulas (float64)
  inv = gam.astype(np.float64) / np.sqrt(var.astype(np.float64) + eps)
  if cls == "conv":
    fk = kernel.astype(np.float64) * inv
  else:
    fk = kernel.astype(np.float64) * inv.reshape(kernel.shape[2], kernel.shape[3])
  fb = (bias.astype(np.float64) - mu) * inv + beta
  # (1) get_folded_weights vs formula
  ok, fw = ctx.call(dict(base, op="get_folded_weights"), lambda: [np.asarray(t) for t in l.get_folded_weights()])
  if not ok:
    return
  ctx.count("folded_weights_formula_checked")
  ctx.evals(int(fw[0].size + fw[1].size))
  if not np.allclose(fw[0], fk, rtol=2e-5, atol=1e-30) or not np.allclose(fw[1], fb, rtol=2e-4, atol=2e-5 * max(1.0, float(np.abs(fb).max()))):
    which = "kernel" if not np.allclose(fw[0], fk, rtol=2e-5, atol=1e-30) else "bias"
    ctx.violation(dict(base, kind="folded_weights_differ_from_formula", tensor=which),
                  "get_folded_weights() %s: %r, formula %r" % (which, (fw[0] if which == "kernel" else fw[1]).ravel()[:3].tolist(),
                                                                (fk if which == "kernel" else fb).ravel()[:3].tolist()),
                  {"case": {k: str(v) for k, v in c.items()}})
  # (2) unquantized: conv -> stock batch normalisation
  if unq:
    r = conv(xt, tf.constant(kernel))
    r = K.bias_add(r, tf.constant(bias))
    r = tf.nn.batch_normalization(r, tf.constant(mu), tf.constant(var), tf.constant(beta), tf.constant(gam), eps)
    r = np.asarray(r)
    ctx.count("unquantized_equivalence_checked")
    tol = 1e-4 * max(1.0, float(np.abs(r).max()))
    if y.shape != r.shape or float(np.abs(y - r).max()) > tol:
      ctx.violation(dict(base, kind="unquantized_folded_layer_differs_from_conv_then_bn", mode=c["mode"]),
                    "max |diff| = %g (tolerance %g)" % (float(np.abs(y - r).max()) if y.shape == r.shape else -1, tol),
                    {"case": {k: str(v) for k, v in c.items()}})
  # (3) quantized reference on the layer's own folded tensors
  qs = l.get_quantizers()
  qk_ = np.asarray(qs[0](tf.constant(fw[0]))) if qs[0] is not None else fw[0]
  qb_ = np.asarray(qs[1](tf.constant(fw[1]))) if qs[1] is not None else fw[1]
  r = K.bias_add(conv(xt, tf.constant(qk_.astype(np.float32))), tf.constant(qb_.astype(np.float32)))
  if l.activation is not None:
    r = l.activation(r)
  r = np.asarray(r)
  ctx.count("quantized_reference_checked")
  tol = 4 * 2.0 ** -23 * max(1.0, float(np.abs(r).max())) * 8
  if y.shape != r.shape or float(np.abs(y - r).max()) > tol:
    ctx.violation(dict(base, kind="layer_differs_from_conv_with_quantized_folded_weights", mode=c["mode"]),
                  "max |diff| = %g" % (float(np.abs(y - r).max()) if y.shape == r.shape else -1),
                  {"case": {k: str(v) for k, v in c.items()}})
  # (3b) the bias quantizer that was *configured* (a fresh instance from the same text), not the one the
  # layer reports: a folded layer has a folded bias whatever use_bias says
  if c["bq"] is not None:
    from qkeras.quantizers import get_quantizer
    qb_cfg = np.asarray(get_quantizer(c["bq"])(tf.constant(fw[1])))
    ctx.count("configured_bias_quantizer_checked")
    if qs[1] is None or not np.allclose(qb_cfg, qb_, rtol=0, atol=0):
      r2 = K.bias_add(conv(xt, tf.constant(qk_.astype(np.float32))), tf.constant(qb_cfg.astype(np.float32)))
      if l.activation is not None:
        r2 = l.activation(r2)
      r2 = np.asarray(r2)
      if y.shape != r2.shape or float(np.abs(y - r2).max()) > tol:
        ctx.violation(dict(base, kind="folded_bias_not_quantized_with_configured_quantizer", use_bias=c["use_bias"]),
                      "bias quantizer %s configured, layer reports %s; max |diff| to the reference with the configured one = %g" % (
                          c["bq"], qs[1], float(np.abs(y - r2).max()) if y.shape == r2.shape else -1),
                      {"case": {k: str(v) for k, v in c.items()}})
  ctx.sample({"case": {k: v for k, v in c.items() if k not in ("idx", "seed")}, "max_abs_output": float(np.abs(y).max())})


def gen_float_model(rnd):
  """conv / depthwise / BN / activation graphs incl. a conv feeding two consumers."""
  import tensorflow as tf
  L = tf.keras.layers
  inp = L.Input((6, 6, 2), name="in")
  x = inp
  expect_fold = []
  names = iter("abcdefghij")
  for _ in range(rnd.randint(2, 4)):
    t = rnd.choice(["conv_bn", "dw_bn", "conv", "conv_branch_bn", "conv_act_bn", "act_statsonly_bn", "frozen_conv", "convT_bn"])
    n = next(names)
    ub = bool(rnd.randint(0, 1))
    if t == "conv_bn":
      x = L.Conv2D(rnd.randint(1, 3), 2, padding="same", use_bias=ub, name="conv_" + n)(x)
      x = L.BatchNormalization(name="bn_" + n)(x)
      expect_fold.append("conv_" + n)
    elif t == "dw_bn":
      x = L.DepthwiseConv2D(2, padding="same", use_bias=ub, name="dw_" + n)(x)
      x = L.BatchNormalization(name="bn_" + n)(x)
      expect_fold.append("dw_" + n)
    elif t == "conv":
      x = L.Conv2D(rnd.randint(1, 3), 1, use_bias=ub, name="conv_" + n)(x)
    elif t == "conv_branch_bn":
      # the conv output feeds a BN *and* a second consumer: must not be folded
      c = L.Conv2D(2, 1, use_bias=ub, name="conv_" + n)(x)
      b = L.BatchNormalization(name="bn_" + n)(c)
      x = L.Add(name="add_" + n)([c, b])
    elif t == "conv_act_bn":
      x = L.Conv2D(rnd.randint(1, 3), 1, use_bias=ub, activation="relu", name="conv_" + n)(x)
      x = L.BatchNormalization(name="bn_" + n)(x)
      expect_fold.append("conv_" + n)
    elif t == "act_statsonly_bn":
      # a BN that is not foldable (it follows an activation) and has no trainable weights at all
      x = L.Activation("relu", name="act0_" + n)(x)
      x = L.BatchNormalization(center=False, scale=False, name="sbn_" + n)(x)
    elif t == "frozen_conv":
      x = L.Conv2D(rnd.randint(1, 3), 1, use_bias=True, trainable=False, name="conv_" + n)(x)
    elif t == "convT_bn":
      # a transposed convolution (a subclass of Conv2D) followed by BN: there is no folded class for it, it stays as it is
      x = L.Conv2DTranspose(rnd.randint(1, 3), 2, padding="same", use_bias=ub, name="ct_" + n)(x)
      x = L.BatchNormalization(name="tbn_" + n)(x)
    if rnd.random() < 0.4:
      x = L.Activation("relu", name="act_" + n)(x)
  return tf.keras.Model(inp, x), expect_fold


def run_model(c, ctx):
  import tensorflow as tf
  import tensorflow.keras.backend as K
  from qkeras import utils as qutils
  from qkeras import bn_folding_utils
  tf.keras.backend.clear_session()
  K.set_learning_phase(0)
  rnd = random.Random(c["mseed"])
  rs = np.random.default_rng(c["mseed"])
  model, expect_fold = gen_float_model(rnd)
  for w in model.weights:
    v = rs.normal(0, 0.5, size=w.shape).astype(np.float32)
    if "moving_variance" in w.name:
      v = np.abs(v) + 0.2
    w.assign(v)
  base = {"part": "model"}
  ctx.count("model_cases")
  ctx.nontrivial("model", c["mseed"])
  ok, res = ctx.call(dict(base, op="convert_to_folded_model"), qutils.convert_to_folded_model, model)
  if not ok:
    return
  fm, folded = res
  ctx.count("fold_decisions_checked")
  if sorted(folded) != sorted(expect_fold):
    ctx.violation(dict(base, kind="wrong_layers_selected_for_folding"),
                  "folded %s, expected %s (conv/depthwise followed only by a BatchNormalization)" % (sorted(folded), sorted(expect_fold)), None)
  gone = {"bn_" + n.split("_", 1)[1] for n in expect_fold}
  names_after = [l.name for l in fm.layers]
  want_after = [l.name for l in model.layers if l.name not in gone]
  if sorted(names_after) != sorted(want_after):
    ctx.violation(dict(base, kind="folded_graph_lost_or_kept_wrong_layers"), "%s vs %s" % (names_after, want_after), None)
  if not expect_fold:
    return
  wide = "quantized_bits(20,4,1,alpha=1.0)"
  # every third model: coarse data-dependent kernels (3 bits, alpha None -> auto_po2 inside the layer), for which
  # quantizing twice is not quantizing once; only folded-vs-unfolded is compared for those
  narrow = c["mseed"] % 3 == 0
  kq = "quantized_bits(3,0,1)" if narrow else wide
  # a conv with an inline activation directly followed by BN: folding moves the BN in front of the activation
  act_before_bn = [l.name for l in model.layers if type(l).__name__ == "Conv2D" and l.get_config()["activation"] != "linear"
                   and l.name in expect_fold]
  base = dict(base, conv_activation_before_bn=bool(act_before_bn))
  qd = {"QConv2D": {"kernel_quantizer": kq, "bias_quantizer": wide}, "QDepthwiseConv2D": {"depthwise_quantizer": kq, "bias_quantizer": wide},
        "QConv2DBatchnorm": {"kernel_quantizer": kq, "bias_quantizer": wide},
        "QDepthwiseConv2DBatchnorm": {"depthwise_quantizer": kq, "bias_quantizer": wide}}
  for n in act_before_bn:      # keep the inline relu wide so that only the order of operations can differ
    qd[n] = {"kernel_quantizer": wide, "bias_quantizer": wide, "activation_quantizer": "quantized_relu(24,8)"}
  ok, qm = ctx.call(dict(base, op="model_quantize_with_folding"), qutils.model_quantize, model, qd, 8, enable_bn_folding=True)
  if not ok:
    return
  # assign the source parameters by variable
  for ql in qm.layers:
    cn = type(ql).__name__
    if cn in ("QConv2DBatchnorm", "QDepthwiseConv2DBatchnorm"):
      src = model.get_layer(ql.name)
      bnl = model.get_layer("bn_" + ql.name.split("_", 1)[1])
      (ql.kernel if cn == "QConv2DBatchnorm" else ql.depthwise_kernel).assign(src.get_weights()[0])
      ql.bias.assign(src.get_weights()[1] if src.use_bias else np.zeros(ql.bias.shape, np.float32))
      ql.batchnorm.gamma.assign(bnl.gamma.numpy())
      ql.batchnorm.beta.assign(bnl.beta.numpy())
      ql.batchnorm.moving_mean.assign(bnl.moving_mean.numpy())
      ql.batchnorm.moving_variance.assign(bnl.moving_variance.numpy())
    elif ql.get_weights():
      ql.set_weights(model.get_layer(ql.name).get_weights())
  for name in expect_fold:
    if type(qm.get_layer(name)).__name__ not in ("QConv2DBatchnorm", "QDepthwiseConv2DBatchnorm"):
      ctx.violation(dict(base, kind="foldable_layer_not_converted_to_folded_class"), "%s is %s" % (name, type(qm.get_layer(name)).__name__), None)
  x = rs.normal(0, 1, size=(3, 6, 6, 2)).astype(np.float32)
  y_float = np.asarray(model(x, training=False))
  y_fold = np.asarray(qm(x, training=False))
  tol = 2e-3 * max(1.0, float(np.abs(y_float).max()))
  if not narrow and (y_fold.shape != y_float.shape or float(np.abs(y_fold - y_float).max()) > tol):
    ctx.violation(dict(base, kind="folded_model_differs_from_source_model"),
                  "max |diff| = %g (20-bit quantizers, tolerance %g)" % (float(np.abs(y_fold - y_float).max()), tol),
                  {"layers": [l.name for l in model.layers]})
  ok, um = ctx.call(dict(base, op="unfold_model"), bn_folding_utils.unfold_model, qm)
  if not ok:
    return
  ctx.count("unfold_checked")
  for l in um.layers:
    if type(l).__name__ in ("QConv2DBatchnorm", "QDepthwiseConv2DBatchnorm"):
      ctx.violation(dict(base, kind="unfolded_model_still_has_folded_layer"), l.name, None)
  for name in expect_fold:
    ul = um.get_layer(name)
    if type(ul).__name__ not in ("QConv2D", "QDepthwiseConv2D") or not ul.use_bias:
      ctx.violation(dict(base, kind="unfolded_layer_wrong_class_or_without_bias"), "%s: %s use_bias=%s" % (name, type(ul).__name__, getattr(ul, "use_bias", None)), None)
  y_unf = np.asarray(um(x, training=False))
  ctx.evals(int(y_unf.size))
  if y_unf.shape != y_fold.shape or not np.array_equal(y_unf, y_fold):
    d = float(np.abs(y_unf - y_fold).max()) if y_unf.shape == y_fold.shape else -1
    # same quantized tensors, different op order (bias added once): allow a few ulps
    if d < 0 or d > 8 * 2.0 ** -23 * max(1.0, float(np.abs(y_fold).max())):
      ctx.violation(dict(base, kind="unfolded_model_predictions_differ"), "max |diff| = %g" % d, {"layers": [l.name for l in model.layers]})
  # ---- parameters changed without training (set_weights), then unfolded again: nothing may be stale
  for ql in qm.layers:
    if type(ql).__name__ in ("QConv2DBatchnorm", "QDepthwiseConv2DBatchnorm"):
      ws = ql.get_weights()
      ql.set_weights([(w * 0.5 + 0.125).astype(w.dtype) if w.ndim >= 1 and "int" not in str(w.dtype) else w for w in ws])
  y_fold2 = np.asarray(qm(x, training=False))
  ok, um2 = ctx.call(dict(base, op="unfold_model_again"), bn_folding_utils.unfold_model, qm)
  if ok:
    ctx.count("second_unfold_checked")
    y_unf2 = np.asarray(um2(x, training=False))
    d = float(np.abs(y_unf2 - y_fold2).max()) if y_unf2.shape == y_fold2.shape else -1
    if d < 0 or d > 8 * 2.0 ** -23 * max(1.0, float(np.abs(y_fold2).max())):
      ctx.violation(dict(base, kind="unfolded_model_predictions_differ_after_weight_change"),
                    "second unfold after set_weights: max |diff| = %g (first unfold agreed)" % d,
                    {"layers": [l.name for l in model.layers]})
  ctx.sample({"part": "model", "layers": [(type(l).__name__, l.name) for l in model.layers], "folded": folded})


def run_sequential(c, ctx):
  """The same unfold claim for models built with the Sequential API (no InputLayer among model.layers)."""
  import tensorflow as tf
  import tensorflow.keras.backend as K
  import qkeras as qk
  from qkeras import bn_folding_utils
  tf.keras.backend.clear_session()
  K.set_learning_phase(0)
  rnd = random.Random(c["mseed"])
  rs = np.random.default_rng(c["mseed"])
  wide = "quantized_bits(12,3,1,alpha=1.0)"
  how = rnd.choice(["input_shape_kwarg", "input_layer_object", "input_shape_kwarg"])
  first_kw = {"input_shape": (6, 6, 2)} if how == "input_shape_kwarg" else {}
  layers = []
  if how == "input_layer_object":
    layers.append(tf.keras.layers.InputLayer(input_shape=(6, 6, 2)))
  n_fold = rnd.randint(1, 2)
  for i in range(n_fold):
    kw = first_kw if i == 0 else {}
    if rnd.random() < 0.6:
      layers.append(qk.QConv2DBatchnorm(filters=rnd.randint(1, 3), kernel_size=(2, 2), padding="same", use_bias=bool(rnd.randint(0, 1)),
                                        kernel_quantizer=wide, bias_quantizer=wide, name="fold_%d" % i, **kw))
    else:
      layers.append(qk.QDepthwiseConv2DBatchnorm(kernel_size=(2, 2), padding="same", use_bias=bool(rnd.randint(0, 1)),
                                                 depthwise_quantizer=wide, bias_quantizer=wide, name="fold_%d" % i, **kw))
    if rnd.random() < 0.5:
      layers.append(qk.QActivation("quantized_relu(8,3)", name="act_%d" % i))
  layers.append(tf.keras.layers.Flatten(name="flat"))
  layers.append(qk.QDense(2, kernel_quantizer=wide, bias_quantizer=wide, name="head"))
  base = {"part": "sequential", "how": how}
  ok, model = ctx.call(dict(base, op="build"), lambda: tf.keras.Sequential(layers))
  if not ok:
    return
  x = rs.normal(0, 1, size=(3, 6, 6, 2)).astype(np.float32)
  ok, _ = ctx.call(dict(base, op="first_call"), lambda: model(x, training=False))
  if not ok:
    return
  for w in model.weights:
    if "iteration" in w.name or not w.dtype.is_floating:
      continue
    v = rs.normal(0, 0.5, size=w.shape).astype(np.float32)
    if "moving_variance" in w.name:
      v = np.abs(v) + 0.2
    w.assign(v)
  ctx.count("sequential_cases")
  ctx.nontrivial("sequential", c["mseed"])
  y_fold = np.asarray(model(x, training=False))
  ok, um = ctx.call(dict(base, op="unfold_model"), bn_folding_utils.unfold_model, model)
  if not ok:
    return
  y_unf = np.asarray(um(x, training=False))
  ctx.evals(int(y_unf.size))
  d = float(np.abs(y_unf - y_fold).max()) if y_unf.shape == y_fold.shape else -1
  if d < 0 or d > 8 * 2.0 ** -23 * max(1.0, float(np.abs(y_fold).max())):
    ctx.violation(dict(base, kind="unfolded_sequential_model_predictions_differ"),
                  "max |diff| = %g between the folded Sequential model and its unfolded form" % d,
                  {"layers": [(type(l).__name__, l.name) for l in model.layers]})


def run_case(c, ctx):
  if c["part"] == "layer":
    run_layer(c, ctx)
  elif c["part"] == "sequential":
    run_sequential(c, ctx)
  else:
    run_model(c, ctx)
