"""C17 - qtools accumulator and adder types can hold every sum they are sized for.

Postcondition contracts (icontract when importable) on
  AccumulatorFactory.make_accumulator(kernel_shape, multiplier, use_bias)
  IAdder.make_quantizer(quantizer_1, quantizer_2)
  MergeFactory.make_quantizer(input_qe_list, layer_type)
decide, per call, from the exact value lattices of the operand types as they are
reported and of the reported result type.  Monotonicity under widening is a
relation between two calls: the driver generates the calls in pairs and compares
the two observed results.
"""
import itertools
import math
import random

from vf.gen import qtypes as qt
from vf.ref import types as ty

PID = "C17"
RULE = ("accumulator case = (weight spec, input spec) -> real multiplier -> make_accumulator for ~16 kernel "
        "shapes (dense (N,c) and conv (h,w,ci,co); N from 1 to 2^20+1 incl. 2^k-1, 2^k, 2^k+1) x use_bias, "
        "plus the same with one operand widened; adder case = (a spec, b spec) over every kind pair (full grid "
        "bits <= 6 quick / 8 thorough, seeded random pairs up to 16 / 24 bits, and real accumulator outputs "
        "+ bias types, the way generate_layer_data_type_map adds the bias) and the widened twin; merge case = "
        "Add / Average / Maximum / Minimum / Concatenate of 2 (3: Add observed only) operand types and the "
        "widened twin.  Oracles: N*min, N*max, (N-1)*end + every extreme, single extremes when 0 is a value "
        "(accumulators; all multisets for tiny cases), every sum of operand extremes and all sums when the "
        "operands hold <= 8 / 10 storage bits (adders, Add), every operand value in the result (Maximum "
        "family), LSB(result) <= finest operand LSB, interval(result) covers the sum of the operand intervals, "
        "and result'(bits, int_bits, interval, LSB) never narrower after widening.  Non-trivial = distinct "
        "(operation, operand types, N) whose extreme sum needs the top magnitude bit of the reported result.")
ANCHORS = [("qkeras/qtools/quantized_operators/accumulator_impl.py", 29, 145),
           ("qkeras/qtools/quantized_operators/adder_impl.py", 27, 122),
           ("qkeras/qtools/quantized_operators/adder_factory.py", 31, 103),
           ("qkeras/qtools/quantized_operators/merge_factory.py", 62, 239)]
ASSUMPTIONS = [
    "type semantics as in C16 (vf/ref/types.py); types with int_bits > bits - sign (ternary (2,2,s), binary (1,1,.), "
    "accumulators derived from them) are read as integers of `bits` bits (f = 0), the only reading under which the "
    "library's own ternary accumulators are meaningful; binary +-1 holds {-1,+1}",
    "the accumulator is sized for N = prod(kernel_shape[:-1]) terms, +1 term of the multiplier output type when "
    "use_bias (as the code sizes it)",
    "operand domain as in C16 (fixed 0 <= int_bits <= bits - sign, po2 max_value a power of two); the accumulator "
    "cases additionally hold fixed operands with -5 <= int_bits < 0 (multiplier outputs with negative integer width)",
    "Add of more than two operands adds one bit irrespective of the count: observed, not enforced; Average is held "
    "to the Maximum-family oracle (result holds every operand value), the half-LSB of a true average is an observation",
    "power-of-two operands never produce 0, a result type identical to a po2 operand (Maximum of equal types) is "
    "checked without the 'minimum stands for 0' convention",
]
TIMEOUT = {"quick": 600, "thorough": 3000}
WORKERS = {"quick": 16, "thorough": 16}
EXHAUSTIVE = {"quick": False, "thorough": False}
BRUTE_BITS = {"quick": 8, "thorough": 10}
MERGES = ["Add", "Average", "Maximum", "Minimum", "Concatenate"]

_S = {"ctx": None, "tier": "quick"}


def thresholds(tier):
  # about one third of what the unchanged tree measures (quick, seed 0: 93k accumulator, 43k adder and
  # 18k merge contract evaluations; 1.86M + 2.41M + 0.58M sums / values; 131k monotonicity pairs)
  if tier == "quick":
    return {"accumulator.contract_evals": 30000, "accumulator.sums_checked": 600000,
            "accumulator.brute_force_multisets": 200000, "accumulator.float": 3000,
            "accumulator.terms_power_of_two": 12000, "accumulator.terms_power_of_two_plus_1": 9000,
            "accumulator.terms_at_least_2^16": 4500,
            "adder.contract_evals": 14000, "adder.type_pairs": 13000, "adder.sums_checked": 800000,
            "adder.brute_force_type_pairs": 8000, "adder.brute_force_sums": 600000,
            "adder.bias_on_accumulator": 500, "adder.float": 400,
            "merge.contract_evals": 6000, "merge.values_checked": 130000, "merge.sums_checked": 55000,
            "merge.brute_force_type_pairs": 2500,
            "resolution_range_checked": 45000, "monotone_pairs_checked": 40000,
            "distinct_nontrivial": 21000}
  return THOROUGH_THRESHOLDS


# thorough, seed 0 measured: 1.04M accumulator, 196k adder, 142k merge contract evaluations; 19.0M + 20.2M +
# 10.9M sums / values; 1.4M monotonicity pairs
THOROUGH_THRESHOLDS = {
    "accumulator.contract_evals": 340000, "accumulator.sums_checked": 6300000,
    "accumulator.brute_force_multisets": 1000000, "accumulator.float": 38000,
    "accumulator.terms_power_of_two": 130000, "accumulator.terms_power_of_two_plus_1": 110000,
    "accumulator.terms_at_least_2^16": 73000,
    "adder.contract_evals": 65000, "adder.type_pairs": 63000, "adder.sums_checked": 6700000,
    "adder.brute_force_type_pairs": 19000, "adder.brute_force_sums": 5300000,
    "adder.bias_on_accumulator": 4000, "adder.float": 1400,
    "merge.contract_evals": 47000, "merge.values_checked": 2300000, "merge.sums_checked": 1200000,
    "merge.brute_force_type_pairs": 21000,
    "resolution_range_checked": 410000, "monotone_pairs_checked": 460000,
    "distinct_nontrivial": 120000}


# ------------------------------------------------------------ workload
def n_values():
  ns = {1, 2, 3}
  for k in range(2, 21):
    ns.update((2 ** k - 1, 2 ** k, 2 ** k + 1))
  return sorted(ns)


def shape_for(n, rnd):
  """A kernel shape with prod(shape[:-1]) == n: dense or a conv factorisation."""
  co = rnd.choice([1, 3, 16])
  if rnd.random() < 0.5:
    return [n, co]
  for h, w in rnd.sample([(3, 3), (5, 5), (2, 2), (1, 3), (7, 7), (1, 1), (4, 4)], 7):
    if n % (h * w) == 0:
      return [h, w, n // (h * w), co]
  return [1, 1, n, co]


def pick_ns(rnd, count):
  ns = n_values()
  must = [1, 2, rnd.choice([2 ** 20 - 1, 2 ** 20, 2 ** 20 + 1])]
  k = rnd.randint(2, 19)
  must += [2 ** k - 1, 2 ** k, 2 ** k + 1]
  rest = rnd.sample(ns, count)
  return sorted(set(must + rest))[:count + 4]


def cases(tier, seed):
  rnd = random.Random(seed * 131 + 17)
  quick = tier == "quick"
  small = qt.grid(3, with_tanh=False)
  g = qt.grid(8 if quick else 12, with_tanh=False)
  by_kind = {k: [s for s in g if s["k"] == k] for k in qt.KINDS}
  out = []

  # accumulators: every kind pair, the tiny grid in full plus seeded draws from the wider grid
  per_kind_pair = 16 if quick else 150
  acc_pairs = []
  for a in small:
    for b in small:
      if rnd.random() < (0.25 if quick else 1.0):
        acc_pairs.append((a, b))
  for kw in qt.KINDS:
    for kx in qt.KINDS:
      for _ in range(per_kind_pair):
        acc_pairs.append((rnd.choice(by_kind[kw]), rnd.choice(by_kind[kx])))
  for _ in range(300 if quick else 4000):
    acc_pairs.append((qt.random_spec(rnd, 9, 16), qt.random_spec(rnd, 1, 16)))
  # fixed operands with a negative integer width (all values below 1/2; the shape of a scale-adjusted
  # auto_po2 multiplier output): the growth rule has to keep the fractional bits
  def neg_fixed():
    b = rnd.randint(2, 8)
    if rnd.random() < 0.5:
      return {"k": "fs", "q": "quantized_bits", "bits": b, "int": -rnd.randint(1, 5)}
    return {"k": "fu", "q": "quantized_bits_u", "bits": b, "int": -rnd.randint(1, 5)}
  fixed_only = by_kind["fs"] + by_kind["fu"]
  for _ in range(160 if quick else 2000):
    r = rnd.random()
    if r < 0.4:
      acc_pairs.append((neg_fixed(), neg_fixed()))
    elif r < 0.7:
      acc_pairs.append((neg_fixed(), rnd.choice(fixed_only)))
    else:
      acc_pairs.append((rnd.choice(fixed_only), neg_fixed()))
  for (w, x) in acc_pairs:
    ns = pick_ns(rnd, 6 if quick else 12)
    c = {"t": "acc", "w": w, "x": x, "shapes": [shape_for(n, rnd) for n in ns]}
    which = rnd.choice(["w", "x"])
    wide = qt.widen(c[which], rnd)
    if wide is not None:
      c["wide"] = [which, wide]
    out.append(c)

  # adders
  ga = qt.grid(5 if quick else 8, with_tanh=False)
  pairs = [(a, b) for a in ga for b in ga]
  for _ in range(6000 if quick else 60000):
    hi = 16 if quick else 24
    pairs.append((qt.random_spec(rnd, 1, hi), qt.random_spec(rnd, 1, hi)))
  rnd.shuffle(pairs)
  chunk = []
  for (a, b) in pairs:
    item = {"a": a, "b": b}
    if rnd.random() < 0.5:
      which = rnd.choice(["a", "b"])
      wide = qt.widen(item[which], rnd)
      if wide is not None:
        item["wide"] = [which, wide]
    chunk.append(item)
    if len(chunk) == 8:
      out.append({"t": "add", "items": chunk})
      chunk = []
  if chunk:
    out.append({"t": "add", "items": chunk})

  # bias add on a real accumulator output
  for _ in range(1500 if quick else 12000):
    out.append({"t": "bias", "w": qt.random_spec(rnd, 1, 8), "x": qt.random_spec(rnd, 1, 8),
                "shape": shape_for(rnd.choice(n_values()), rnd), "b": qt.random_spec(rnd, 1, 12)})

  # merges
  gm = qt.grid(5 if quick else 7, with_tanh=False)
  chunk = []
  nm = 2600 if quick else 20000
  for layer in MERGES:
    for i in range(nm):
      if i < nm // 2:
        a, b = rnd.choice(gm), rnd.choice(gm)
      else:
        a, b = qt.random_spec(rnd, 1, 12), qt.random_spec(rnd, 1, 12)
      item = {"layer": layer, "ops": [a, b]}
      r = rnd.random()
      if r < 0.08:
        item["ops"].append(rnd.choice(gm))
      elif r < 0.16:
        item["ops"] = [a, dict(a)]          # identical operand types
      elif r < 0.6:
        wide = qt.widen(a, rnd)
        if wide is not None:
          item["wide"] = [0, wide]
      chunk.append(item)
      if len(chunk) == 8:
        out.append({"t": "merge", "items": chunk})
        chunk = []
  if chunk:
    out.append({"t": "merge", "items": chunk})
  rnd.shuffle(out)
  for i, c in enumerate(out):
    c["idx"], c["seed"] = i, seed
  return out


# ------------------------------------------------------------ oracle helpers
def _kind(t):
  """fs/fu/ps/pu/t/bpm/b01/float; a ternary type that reports fewer than 2 bits
  (the Mux(ternary, binary+-1) output, see C16) is kept apart as 't(1bit)'."""
  k = ty.short_kind(t)
  if t.kind == "ternary" and t.bits < 2:
    return "t(1bit)"
  return k


def _merge_classes(ts):
  """Mechanism-level summary of a merge's operand types: the feature that
  decides which sizing rule applies (a po2 operand is converted to fixed point
  first; binary +-1 is the 1-bit signed type; otherwise plain), and how the
  operand types relate (identical / signed+unsigned mix / mismatched)."""
  ks = {_kind(t) for t in ts}
  if ks & {"ps", "pu"}:
    a = "po2"
  elif "bpm" in ks:
    a = "bpm"
  elif "t(1bit)" in ks:
    a = "t(1bit)"
  else:
    a = "plain"
  if all(t == ts[0] for t in ts[1:]):
    rel = "identical"
  elif len({t.signed for t in ts}) > 1:
    rel = "signed+unsigned"
  else:
    rel = "mismatched"
  return a, rel


def _sig(base, kind, fail=None, short=None):
  s = dict(base)
  s["kind"] = kind
  s["fail"] = fail
  s["short_bits"] = None if short is None else (short if short <= 2 else "3+")
  return s


def _lit(lit):
  return lit() if callable(lit) else lit


def _lab(what):
  """Labels are built lazily: (format, values...) -> text."""
  if isinstance(what, tuple):
    return what[0] % tuple(ty.fmt(v) if not isinstance(v, str) else v for v in what[1:])
  return what


def _member(ctx, base, kind, O, values, lit, failed, label):
  """Every value must be in lattice(O); one violation per distinct (fail, shortfall)."""
  good = True
  n = 0
  tight = False
  half = ty.max_abs(O) / 2 if O.kind == "fixed" else None
  for (what, v) in values:
    n += 1
    why = ty.why_not(O, v)
    if why is None:
      if half is not None and not tight and abs(v) > half:
        tight = True
      continue
    short = ty.shortfall_bits(O, v) if why in ("above_max", "below_min") else None
    tag = (kind, why, short)
    good = False
    if tag in failed:
      continue
    failed.add(tag)
    what = _lab(what)
    ctx.violation(_sig(base, kind, why, short),
                  "%s: %s = %s is not a value of the reported %s type %s (%s)" % (
                      label, what, ty.fmt(v), base["op"], ty.describe(O), why),
                  dict(_lit(lit), what=what, value=ty.fmt(v)))
  return good, n, tight


def _resolution_range(ctx, base, O, lsbs, lo_need, hi_need, lit, label):
  """LSB(O) <= finest operand LSB; [vmin(O), vmax(O)] covers [lo_need, hi_need]."""
  ctx.count("resolution_range_checked")
  ctx.evals(2)
  good = True
  if O.kind != "fixed":
    return good
  fin = min(lsbs)
  if ty.lsb(O) > fin:
    good = False
    ctx.violation(_sig(base, "resolution_coarser_than_finest_operand"),
                  "%s: LSB of the result %s is %s, the finest operand LSB is %s" % (
                      label, ty.describe(O), ty.fmt(ty.lsb(O)), ty.fmt(fin)), _lit(lit))
  if ty.vmax(O) < hi_need or ty.vmin(O) > lo_need:
    good = False
    top = ty.vmax(O) < hi_need
    v = hi_need if top else lo_need
    ctx.violation(_sig(base, "range_smaller_than_sum_of_magnitudes", "above_max" if top else "below_min",
                       ty.shortfall_bits(O, v)),
                  "%s: result %s covers [%s, %s], the sums span [%s, %s]" % (
                      label, ty.describe(O), ty.fmt(ty.vmin(O)), ty.fmt(ty.vmax(O)), ty.fmt(lo_need), ty.fmt(hi_need)), _lit(lit))
  return good


def _float_rule(ctx, base, operands, O, lit):
  """Returns None when no operand is float, else the verdict of the float rule."""
  fl = [t for t in operands if t.kind == "float"]
  if not fl:
    if O.kind == "float":
      ctx.observe("non_float_operands_float_result/%s" % base["op"], _lit(lit))
      return True
    return None
  ctx.count("%s.float" % base["op"])
  ctx.evals(1)
  if O.kind != "float":
    ctx.violation(_sig(base, "float_operand_non_float_result"),
                  "a floating-point operand but the result type is %s" % ty.describe(O), _lit(lit))
    return False
  if O.bits < max(t.bits for t in fl):
    ctx.violation(_sig(base, "float_result_narrower_than_operand"),
                  "float%d operand, float%d result" % (max(t.bits for t in fl), O.bits), _lit(lit))
    return False
  return True


# ------------------------------------------------------------ accumulator contract
def check_accumulator(kernel_shape, multiplier, use_bias, result):
  ctx = _S["ctx"]
  ctx.count("accumulator.contract_evals")
  M, A = ty.from_reported(multiplier.output), ty.from_reported(result.output)
  n_kernel = math.prod(int(d) for d in tuple(kernel_shape)[:-1])
  N = n_kernel + (1 if use_bias else 0)
  base = {"op": "accumulator", "impl": type(result).__name__, "a": _kind(M),
          "b": "bias" if use_bias else "nobias"}
  lit = lambda: {"kernel_shape": [int(d) for d in kernel_shape], "use_bias": bool(use_bias), "terms": N,  # noqa: E731
                 "multiplier_output": ty.fields(multiplier.output), "accumulator": ty.fields(result.output)}
  ctx.seen("n_values", N)
  if N & (N - 1) == 0:
    ctx.count("accumulator.terms_power_of_two")
  elif (N - 1) & (N - 2) == 0:
    ctx.count("accumulator.terms_power_of_two_plus_1")
  if N >= 2 ** 16:
    ctx.count("accumulator.terms_at_least_2^16")
  ctx.seen("accumulator_impl_by_kind", "%s -> %s" % (_kind(M), type(result).__name__))
  fr = _float_rule(ctx, base, [M], A, lit)
  if fr is not None:
    return fr
  if ty.is_empty(M):
    ctx.skip("empty_multiplier_lattice")
    return True
  if A.kind != "fixed" or A.bits < 1:
    ctx.violation(_sig(base, "degenerate_result_type"), "accumulator type %s" % ty.describe(A), _lit(lit))
    return False
  label = "N=%d terms of %s" % (N, ty.describe(M))
  mx, mn = ty.vmax(M), ty.vmin(M)
  ex = ty.extremes(M)
  vals = [("N*max", N * mx), ("N*min", N * mn)]
  if N >= 2:
    for v in ex:
      vals.append((("(N-1)*max + %s", v), (N - 1) * mx + v))
      vals.append((("(N-1)*min + %s", v), (N - 1) * mn + v))
  if ty.has_zero(M):
    for v in ex:
      vals.append((("%s + (N-1)*0", v), v))
    sp = ty.smallest_positive(M)
    if sp is not None and N * mx - sp >= 0:
      vals.append(("N*max - LSB", N * mx - sp))
  failed = set()
  good, n, tight = _member(ctx, base, "sum_not_representable", A, vals, lit, failed, label)
  # tiny cases: every multiset of N values
  sz = ty.size(M)
  if N <= 6 and math.comb(sz + N - 1, N) <= 500:
    allv = ty.enumerate_values(M)
    sums = sorted({sum(c) for c in itertools.combinations_with_replacement(allv, N)})
    ctx.count("accumulator.brute_force_multisets", math.comb(sz + N - 1, N))
    ctx.count("accumulator.brute_force_cases")
    g2, n2, _ = _member(ctx, base, "sum_not_representable", A, [("sum of a multiset", s) for s in sums], lit, failed, label)
    good, n = good and g2, n + n2
  ctx.count("accumulator.sums_checked", n)
  ctx.evals(n)
  good = _resolution_range(ctx, base, A, [ty.lsb(M)], N * mn, N * mx, lit, label) and good
  if tight:
    ctx.nontrivial("acc", ty.describe(M), N)
  if good and len(ctx.samples) < 3:
    ctx.sample(dict(_lit(lit), sums_checked=n))
  return good


# ------------------------------------------------------------ adder / merge contracts
def _check_sum2(ctx, base, A, B, O, lit, prefix):
  label = "%s + %s" % (ty.describe(A), ty.describe(B))
  brute = ty.storage_bits(A) + ty.storage_bits(B) <= BRUTE_BITS[_S["tier"]]
  if brute:
    va, vb = ty.enumerate_values(A), ty.enumerate_values(B)
    ctx.count(prefix + ".brute_force_type_pairs")
    ctx.count(prefix + ".brute_force_sums", len(va) * len(vb))
  else:
    va, vb = ty.extremes(A), ty.extremes(B)
  vals = [(("%s + %s", a, b), a + b) for a in va for b in vb]
  failed = set()
  good, n, tight = _member(ctx, base, "sum_not_representable", O, vals, lit, failed, label)
  ctx.count(prefix + ".sums_checked", n)
  ctx.evals(n)
  good = _resolution_range(ctx, base, O, [ty.lsb(A), ty.lsb(B)], ty.vmin(A) + ty.vmin(B),
                           ty.vmax(A) + ty.vmax(B), lit, label) and good
  if tight:
    ctx.nontrivial(base["op"], base["impl"], ty.describe(A), ty.describe(B))
  return good, n


def check_adder(q1, q2, result):
  ctx = _S["ctx"]
  ctx.count("adder.contract_evals")
  A, B, O = ty.from_reported(q1), ty.from_reported(q2), ty.from_reported(result.output)
  base = {"op": "adder", "impl": type(result).__name__, "a": _kind(A), "b": _kind(B)}
  lit = lambda: {"a": ty.fields(q1), "b": ty.fields(q2), "result": ty.fields(result.output)}  # noqa: E731
  ctx.seen("adder_impl_by_kind_pair", "%s + %s -> %s" % (base["a"], base["b"], base["impl"]))
  fr = _float_rule(ctx, base, [A, B], O, lit)
  if fr is not None:
    return fr
  if ty.is_empty(A) or ty.is_empty(B):
    ctx.skip("empty_operand_lattice")
    return True
  if O.kind != "fixed" or O.bits < 1:
    ctx.violation(_sig(base, "degenerate_result_type"), "adder type %s" % ty.describe(O), _lit(lit))
    return False
  ctx.count("adder.type_pairs")
  good, n = _check_sum2(ctx, base, A, B, O, lit, "adder")
  if good and len(ctx.samples) < 3:
    ctx.sample(dict(_lit(lit), sums_checked=n))
  return good


def check_merge(input_qe_list, layer_type, result):
  ctx = _S["ctx"]
  if layer_type not in MERGES or result is None:
    ctx.count("merge.other_layer_types")
    return True
  ctx.count("merge.contract_evals")
  qs = [node[0] for node in input_qe_list]
  ts = [ty.from_reported(q) for q in qs]
  O = ty.from_reported(result.output)
  ma, mb = _merge_classes(ts)
  base = {"op": "merge", "impl": layer_type, "a": ma, "b": mb}
  ctx.seen("merge_operand_classes", "%s(%s; %s)" % (layer_type, ma, mb))
  lit = lambda: {"layer": layer_type, "operands": [ty.fields(q) for q in qs],  # noqa: E731
                 "result": ty.fields(result.output)}
  fr = _float_rule(ctx, base, ts, O, lit)
  if fr is not None:
    return fr
  if any(ty.is_empty(t) for t in ts):
    ctx.skip("empty_operand_lattice")
    return True
  if O.kind == "fixed" and O.bits < 1:
    ctx.violation(_sig(base, "degenerate_result_type"), "merge type %s" % ty.describe(O), _lit(lit))
    return False
  if layer_type == "Add":
    if len(ts) == 2:
      good, n = _check_sum2(ctx, base, ts[0], ts[1], O, lit, "merge")
      ctx.count("merge.values_checked", n)
      return good
    # k > 2: the code adds one bit irrespective of k -- observed only
    hi = sum(ty.vmax(t) for t in ts)
    lo = sum(ty.vmin(t) for t in ts)
    ctx.count("merge.add_of_more_than_two")
    if ty.why_not(O, hi) is not None or ty.why_not(O, lo) is not None:
      ctx.observe("add_of_%d_operands_extreme_sum_not_representable" % len(ts), _lit(lit))
    return True
  # Maximum family: the result holds every value of every operand
  label = "%s(%s)" % (layer_type, ", ".join(ty.describe(t) for t in ts))
  failed = set()
  good, n = True, 0
  brute = sum(ty.storage_bits(t) for t in ts) <= BRUTE_BITS[_S["tier"]]
  if brute:
    ctx.count("merge.brute_force_type_pairs")
  tight = False
  for t in ts:
    vs = ty.enumerate_values(t) if brute else ty.extremes(t)
    g2, n2, t2 = _member(ctx, base, "operand_value_not_representable", O,
                         [(("value %s of %s", v, ty.describe(t)), v) for v in vs], lit, failed, label)
    good, n, tight = good and g2, n + n2, tight or t2
  ctx.count("merge.values_checked", n)
  ctx.evals(n)
  if O.kind == "fixed":
    good = _resolution_range(ctx, base, O, [ty.lsb(t) for t in ts], min(ty.vmin(t) for t in ts),
                             max(ty.vmax(t) for t in ts), lit, label) and good
  if layer_type == "Average" and len(ts) == 2:
    v = (ty.vmax(ts[0]) + ty.vmin(ts[1])) / 2
    if ty.why_not(O, v) is not None:
      ctx.observe("average_of_two_operand_values_not_representable", _lit(lit))
  if tight:
    ctx.nontrivial("merge", layer_type, tuple(ty.describe(t) for t in ts))
  return good


def install(ctx, tier=None):
  from qkeras.qtools.quantized_operators import accumulator_factory, adder_factory, merge_factory
  from vf.monitors import contracts
  _S["ctx"] = ctx
  _S["tier"] = tier or ctx.tier
  e = contracts.install_post(
      accumulator_factory.AccumulatorFactory, "make_accumulator",
      lambda kernel_shape, multiplier, use_bias, result: check_accumulator(kernel_shape, multiplier, use_bias, result),
      "C17: the accumulator type holds every sum of N values of the multiplier output type")
  contracts.install_post(
      adder_factory.IAdder, "make_quantizer",
      lambda quantizer_1, quantizer_2, result: check_adder(quantizer_1, quantizer_2, result),
      "C17: the adder type holds every sum of two operand values")
  contracts.install_post(
      merge_factory.MergeFactory, "make_quantizer",
      lambda input_qe_list, layer_type, result: check_merge(input_qe_list, layer_type, result),
      "C17: the merge result type holds every sum / every operand value")
  ctx.seen("contract_engine", e)
  return e


# ------------------------------------------------------------ driver
def setup(ctx):
  from qkeras.qtools.quantized_operators import (accumulator_factory, adder_factory, merge_factory,
                                                 multiplier_factory)
  install(ctx)
  _S["ops"] = qt.Operands(ctx, PID)
  _S["mf"] = multiplier_factory.MultiplierFactory()
  _S["af"] = accumulator_factory.AccumulatorFactory()
  _S["adder"] = adder_factory.IAdder()
  _S["merge"] = merge_factory.MergeFactory()


def _call(ctx, base, cls, name, obj, *args):
  """Calls obj.name(*args) with the contract on; when the contract failed (already
  recorded) the undecorated function is called to obtain the result for the
  pairwise (monotonicity) oracles.  Returns the result or None."""
  from vf.monitors import contracts
  ok, r = ctx.call(base, getattr(obj, name), *args, _allowed=(contracts.ContractFail,))
  # results handed out earlier must still report what they reported when they were returned
  held = _S.setdefault("held", [])
  for item in list(held):
    r0, snap0, what0 = item
    ctx.count("earlier_results_reread")
    now = ty.fields(getattr(r0, "output", r0))
    if now != snap0:
      ctx.violation({"op": what0, "what": "earlier_result_rewritten_by_later_call"},
                    "%s result reported %r when returned, %r after a later %s call" % (what0, snap0, now, name), None)
      held.remove(item)
  if ok and r is not None:
    try:
      held.append((r, ty.fields(getattr(r, "output", r)), name))
    except Exception:      # pylint: disable=broad-except
      pass
    if len(held) > 6:
      held.pop(0)
  if ok:
    return r
  if isinstance(r, contracts.ContractFail):
    ctx.count("contract_failures")
    ok, r = ctx.call(base, contracts.original(cls, name), obj, *args)
    return r if ok else None
  return None


def monotone(ctx, base, O1, O2, lit):
  """O2 was produced from a widened operand: it must not be narrower than O1."""
  ctx.count("monotone_pairs_checked")
  ctx.evals(1)
  if O1.kind == "float" or O2.kind == "float":
    if O1.kind == "float" and O2.kind != "float":
      ctx.violation(_sig(base, "widening_narrows_result", "float_to_fixed"), "float result became %s" % ty.describe(O2), _lit(lit))
    return
  if ty.is_empty(O1) or ty.is_empty(O2):
    return
  bad = None
  same_kind = O1.kind == O2.kind       # bit counts of different kinds of type are not comparable
  if same_kind and O2.bits < O1.bits:
    bad = "bits"
  elif same_kind and O1.kind == "fixed" and O2.int_bits < O1.int_bits:
    bad = "int_bits"
  elif ty.vmax(O2) < ty.vmax(O1) or ty.vmin(O2) > ty.vmin(O1):
    bad = "interval"
  elif ty.lsb(O2) > ty.lsb(O1):
    bad = "lsb"
  if bad:
    ctx.violation(_sig(base, "widening_narrows_result", bad),
                  "result %s became %s after widening an operand (%s)" % (ty.describe(O1), ty.describe(O2), bad), _lit(lit))


def _out(r):
  return None if r is None else ty.from_reported(r.output)


def run_acc(case, ctx):
  ops = _S["ops"]
  af = _S["af"]
  AF = type(af)

  def mult(ws, xs):
    w, x = ops.get(ws), ops.get(xs)
    if w is None or x is None:
      return None
    ok, m = ctx.call({"op": "multiplier", "a": ws["k"], "b": xs["k"]}, _S["mf"].make_multiplier, w[1], x[1])
    return m if ok else None

  m = mult(case["w"], case["x"])
  if m is None:
    ctx.skip("multiplier_not_built")
    return
  m2 = None
  if "wide" in case:
    which, wide = case["wide"]
    m2 = mult(wide if which == "w" else case["w"], wide if which == "x" else case["x"])
  kind = _kind(ty.from_reported(m.output))
  prev = {}
  for shape in case["shapes"]:
    for bias in (False, True):
      base = {"op": "accumulator", "a": kind, "b": "bias" if bias else "nobias"}
      r = _call(ctx, base, AF, "make_accumulator", af, tuple(shape), m, bias)
      if r is None:
        continue
      O = ty.from_reported(r.output)
      mbase = dict(base, impl=type(r).__name__)
      def lit(shape=shape, bias=bias, **more):
        return dict({"kernel_shape": shape, "use_bias": bias, "multiplier_output": ty.fields(m.output)}, **more)
      n = math.prod(shape[:-1])
      # more terms never narrow the accumulator (shapes are in ascending N)
      if bias in prev and prev[bias][0] <= n:
        monotone(ctx, dict(mbase, b="more_terms"), prev[bias][1], O,
                 lambda lit=lit, k=prev[bias][0]: lit(fewer_terms=k))
      prev[bias] = (n, O)
      if bias and prev.get(False) and prev[False][0] == n:
        monotone(ctx, dict(mbase, b="bias_added"), prev[False][1], O, lit)
      if m2 is not None:
        r2 = _call(ctx, base, AF, "make_accumulator", af, tuple(shape), m2, bias)
        if r2 is not None:
          monotone(ctx, dict(mbase, b="operand_widened"), O, ty.from_reported(r2.output),
                   lambda lit=lit: lit(widened_multiplier_output=ty.fields(m2.output)))


def run_add(case, ctx):
  ops = _S["ops"]
  adder = _S["adder"]
  AD = type(adder)
  for it in case["items"]:
    a, b = ops.get(it["a"]), ops.get(it["b"])
    if a is None or b is None:
      continue
    base = {"op": "adder", "a": it["a"]["k"], "b": it["b"]["k"]}
    r1 = _call(ctx, base, AD, "make_quantizer", adder, a[1], b[1])
    if "wide" in it and r1 is not None:
      which, wide = it["wide"]
      w = ops.get(wide)
      if w is None:
        continue
      a2, b2 = (w, b) if which == "a" else (a, w)
      r2 = _call(ctx, base, AD, "make_quantizer", adder, a2[1], b2[1])
      if r2 is not None:
        monotone(ctx, dict(base, impl=type(r1).__name__), _out(r1), _out(r2),
                 lambda a=a, b=b, w=w, which=which: {"a": ty.fields(a[1]), "b": ty.fields(b[1]),
                                                      "widened": which, "as": ty.fields(w[1])})


def run_bias(case, ctx):
  """The bias add of generate_layer_data_type_map: IAdder(kernel accumulator output, bias type)."""
  ops = _S["ops"]
  w, x, b = ops.get(case["w"]), ops.get(case["x"]), ops.get(case["b"])
  if w is None or x is None or b is None:
    return
  ok, m = ctx.call({"op": "multiplier"}, _S["mf"].make_multiplier, w[1], x[1])
  if not ok:
    return
  acc = _call(ctx, {"op": "accumulator"}, type(_S["af"]), "make_accumulator", _S["af"], tuple(case["shape"]), m, False)
  if acc is None:
    return
  ctx.count("adder.bias_on_accumulator")
  _call(ctx, {"op": "adder", "a": "accumulator", "b": case["b"]["k"]}, type(_S["adder"]), "make_quantizer",
        _S["adder"], acc.output, b[1])


def run_merge(case, ctx):
  ops = _S["ops"]
  mg = _S["merge"]
  MG = type(mg)
  for it in case["items"]:
    got = [ops.get(s) for s in it["ops"]]
    if any(g is None for g in got):
      continue
    base = {"op": "merge", "impl": it["layer"], "a": it["ops"][0]["k"]}
    lst = [(g[1], None) for g in got]
    r1 = _call(ctx, base, MG, "make_quantizer", mg, lst, it["layer"])
    if "wide" in it and r1 is not None:
      w = ops.get(it["wide"][1])
      if w is None:
        continue
      lst2 = [(w[1], None)] + lst[1:]
      r2 = _call(ctx, base, MG, "make_quantizer", mg, lst2, it["layer"])
      if r2 is not None:
        ma, mb = _merge_classes([ty.from_reported(g[1]) for g in got])
        monotone(ctx, dict(base, a=ma, b=mb), _out(r1), _out(r2),
                 lambda got=got, w=w: {"operands": [ty.fields(g[1]) for g in got],
                                       "widened_first_operand_as": ty.fields(w[1])})


def run_case(case, ctx):
  {"acc": run_acc, "add": run_add, "bias": run_bias, "merge": run_merge}[case["t"]](case, ctx)


def finalize(ctx):
  from vf.monitors import contracts
  contracts.uninstall_all()
