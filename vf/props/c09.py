"""C09 - quantizer configuration round trip reproduces the same function."""
import copy
import json

import numpy as np

from vf.gen import qlattice

PID = "C09"
RULE = ("one case = one quantizer instance of the option lattice (default, every single non-default "
        "constructor option, every pair of options; thorough: random cross products) x three routes "
        "(from_config(get_config()); get_quantizer on the JSON round-tripped serialized dict; framework "
        "serialize/deserialize with the library's custom-object table); outputs and scale of the rebuilt "
        "object compared bit-for-bit on 6 probe tensors (rank 1/2/3/4, several magnitudes, a zero channel) "
        "with the RNG stream pinned. Non-trivial = distinct instances with at least one non-default option.")
ANCHORS = [("qkeras/quantizers.py", 1160, 1175), ("qkeras/quantizers.py", 1499, 1531),
           ("qkeras/quantizers.py", 1640, 1646), ("qkeras/quantizers.py", 1785, 1796),
           ("qkeras/quantizers.py", 1941, 1953), ("qkeras/quantizers.py", 2143, 2153),
           ("qkeras/quantizers.py", 2250, 2260), ("qkeras/quantizers.py", 2459, 2482),
           ("qkeras/quantizers.py", 2545, 2556), ("qkeras/quantizers.py", 2615, 2626),
           ("qkeras/quantizers.py", 2681, 2692), ("qkeras/quantizers.py", 2918, 2952),
           ("qkeras/quantizers.py", 3088, 3126), ("qkeras/quantizers.py", 3274, 3285),
           ("qkeras/quantizers.py", 3289, 3317), ("qkeras/quantizer_registry.py", 22, 34)]
ASSUMPTIONS = [
    "outputs are compared at learning phase 0 with tf.random.uniform pinned to a constant stream, so both copies see the same draws",
    "differences of <= 4 ulp with identical codes are logged as float-path observations, not violations",
    "an option counts as lost when the rebuilt object's constructor attribute differs from the original's",
]
KERAS3_PASS = False
TIMEOUT = {"quick": 900, "thorough": 3000}
ROUTES = ["from_config", "get_quantizer_dict", "keras_deserialize"]
# options that do not change forward outputs (gradient / variable plumbing only)
NONFUNCTIONAL = ("var_name", "use_variables", "use_ste")


def thresholds(tier):
  return {"instances": 250, "routes_checked": 700, "registry_names_checked": 14,
          "distinct_nontrivial": 250}


def cases(tier, seed):
  out = qlattice.instances(tier, seed)
  # an upper bound the call ignores (is_quantized_clip left at / set to True; the lattice only pairs the bound with
  # is_quantized_clip=False, where it acts): the rebuilt object has to ignore it too
  for kw in ({"bits": 4, "integer": 2, "relu_upper_bound": 1.5},
             {"bits": 4, "integer": 2, "relu_upper_bound": 1.5, "is_quantized_clip": True},
             {"bits": 6, "integer": 3, "relu_upper_bound": 4, "negative_slope": 0.25},
             {"bits": 3, "integer": 1, "relu_upper_bound": 0.5, "qnoise_factor": 0.5}):
    out.append({"cls": "quantized_relu", "kw": kw, "how": "ignored_bound", "idx": len(out), "seed": seed})
  out.append({"cls": "__registry__", "kw": {}, "how": "registry", "idx": len(out), "seed": seed})
  return out


def realise(case, qenv):
  """Builds the instance; PTS placeholders become a scale taken from a first call."""
  kw = dict(case["kw"])
  if kw.get("alpha") == qlattice.NP_ALPHA:
    kw["alpha"] = np.float32(2.0)
  if kw.get("post_training_scale") in (qlattice.PTS, qlattice.PTS_X):
    factor = 0.75 if kw["post_training_scale"] == qlattice.PTS_X else 1.0
    kw0 = {k: v for k, v in kw.items() if k != "post_training_scale"}
    q0 = qenv.build({"cls": case["cls"], "kw": kw0})
    from vf import qcompare
    qenv.call(q0, qcompare.probes(case["seed"])[1])
    kw["post_training_scale"] = np.asarray(qenv.as_np(q0.scale), dtype=np.float32) * np.float32(factor)
  if kw.get("alpha") == qlattice.ARR_COL:
    kw["alpha"] = np.array([[1.0], [2.0], [0.5], [4.0], [1.0], [0.25]], dtype=np.float32)
  elif kw.get("alpha") == qlattice.ARR_ROW:
    kw["alpha"] = np.array([[1.0, 2.0, 0.5, 4.0]], dtype=np.float32)
  return qenv.build({"cls": case["cls"], "kw": kw}), kw


def run_case(case, ctx):
  from vf import qenv, qcompare
  from vf.monitors import rng as rngmod
  import tensorflow as tf
  import tensorflow.keras.backend as K
  from qkeras import quantizers as Q
  from qkeras import quantizer_registry
  cls = case["cls"]
  if cls == "__registry__":
    from qkeras import quantizer_imports
    names = sorted(n for n in dir(quantizer_imports) if not n.startswith("_") and isinstance(getattr(quantizer_imports, n), type))
    for name in sorted(qlattice.DOMAIN):
      ok, c = ctx.call({"kind": "registry", "name": name}, quantizer_registry.lookup_quantizer, name)
      ctx.count("registry_names_checked")
      if ok and getattr(c, "__name__", None) != name:
        ctx.violation({"kind": "registry_name_resolves_to_other_class", "name": name},
                      "lookup_quantizer(%r) -> %r" % (name, c), None)
      if name not in names:
        ctx.violation({"kind": "class_not_exported_by_quantizer_imports", "name": name}, name, None)
    for n in names:
      if n not in qlattice.DOMAIN:
        ctx.observe("exported_class_outside_lattice", n)
    return
  K.set_learning_phase(0)
  with rngmod.controlled() as stream:
    stream.set_grid(23, 64)
    ok, built = ctx.call({"cls": cls, "kind": "construct"}, realise, case, qenv)
    if not ok:
      return
    q, kw = built
    ctx.count("instances")
    ctx.seen("classes", cls)
    if case["kw"]:
      ctx.nontrivial(cls, sorted((k, str(v)) for k, v in case["kw"].items()))
    # warm-up call: a quantizer inside a model has been built before it is serialized
    try:
      qenv.call(q, qcompare.probes(case["seed"])[1])
    except Exception:  # pylint: disable=broad-except
      pass
    co = {}
    from qkeras.utils import _add_supported_quantized_objects
    _add_supported_quantized_objects(co)
    results = {}
    for route in ROUTES:
      holder = {}

      def rebuild():
        # the serialized form is produced once per route and may be consumed more than once (a model
        # config is routinely passed to from_config several times)
        if route == "from_config":
          if "obj" not in holder:
            holder["obj"] = copy.deepcopy(q.get_config())
          return type(q).from_config(holder["obj"])
        if "obj" not in holder:
          ser = tf.keras.utils.serialize_keras_object(q)
          holder["obj"] = json.loads(json.dumps(ser, default=lambda o: o.tolist() if hasattr(o, "tolist") else float(o)))
        if route == "get_quantizer_dict":
          return Q.get_quantizer(holder["obj"])
        return tf.keras.utils.deserialize_keras_object(holder["obj"], custom_objects=co)
      try:
        q2 = rebuild()
      except Exception as e:  # pylint: disable=broad-except
        where = ctx.repo_frame(e.__traceback__) or "outside_repo"
        results[route] = ("raises", type(e).__name__ + "@" + where.split(":")[-1], "%s: %s" % (type(e).__name__, str(e)[:200]), [])
        continue
      ctx.count("routes_checked")
      ctx.evals(1)
      if type(q2) is not type(q):
        results[route] = ("wrong_class", type(q2).__name__, "rebuilt as %s" % type(q2).__name__, [])
        continue
      res = qcompare.compare(q, q2, qenv.call, qenv.as_np, case["seed"])
      if res["kind"] is None and (cls.startswith("stochastic_") or cls == "bernoulli" or getattr(q, "use_stochastic_rounding", False)):
        # the training phase of the stochastic classes is part of the function: same (constant) draw for both
        K.set_learning_phase(1)
        try:
          stream.set_const(0.37)
          res_t = qcompare.compare(q, q2, qenv.call, qenv.as_np, case["seed"])
        finally:
          K.set_learning_phase(0)
          stream.set_grid(23, 64)
        ctx.count("training_phase_compared")
        if res_t["kind"] is not None:
          res = dict(res_t, detail="training phase, every draw 0.37: " + str(res_t.get("detail")))
      lost = qcompare.differing_options(q, q2)
      if res["kind"] is None:
        # the same serialized object a second time: must rebuild the same quantizer again
        try:
          q3 = rebuild()
          res3 = qcompare.compare(q, q3, qenv.call, qenv.as_np, case["seed"]) if type(q3) is type(q) else {"kind": "wrong_class", "detail": type(q3).__name__}
        except Exception as e:  # pylint: disable=broad-except
          res3 = {"kind": "raises", "detail": "%s: %s" % (type(e).__name__, str(e)[:160])}
        ctx.count("second_rebuilds_checked")
        if res3["kind"] is not None:
          ctx.violation({"cls": cls, "kind": "second_rebuild_from_same_serialized_object_differs", "route": route,
                         "effect": res3["kind"]},
                        "%s(%s): rebuilding twice from one serialized object: 1st equals the original, 2nd: %s" % (
                            cls, case["kw"], res3.get("detail")),
                        {"kw": {k: str(v) for k, v in kw.items()}})
        if res.get("float_path"):
          ctx.observe("float_path_difference_<=4ulp", {"cls": cls, "kw": case["kw"], "lost": lost})
        if lost:
          ctx.observe("option_lost_without_output_change:%s.%s" % (cls, ",".join(lost)), {"kw": case["kw"], "route": route})
        if res["n_compared"] == 0:
          ctx.skip("instance_not_callable_on_any_probe")
        continue
      results[route] = (res["kind"], ",".join(lost) or "none", res["detail"], lost)
    if results:
      # group routes that fail identically
      groups = {}
      for route, (kind, what, detail, lost) in results.items():
        groups.setdefault((kind, what), []).append((route, detail, lost))
      for (kind, what), items in groups.items():
        routes = sorted(r for r, _, _ in items)
        rname = "all" if len(routes) == len(ROUTES) else "+".join(routes)
        lost = [o for o in items[0][2] if o not in NONFUNCTIONAL]
        if kind in ("output_diff", "scale_diff", "raises_only_in_copy") and lost:
          for opt in lost:
            ctx.violation({"cls": cls, "kind": "option_lost", "option": opt, "route": rname},
                          "%s(%s): option %r is not restored (%s): %s" % (cls, case["kw"], opt, kind, items[0][1]),
                          {"kw": {k: str(v) for k, v in kw.items()}, "effect": kind})
        else:
          ctx.violation({"cls": cls, "kind": kind, "what": what, "route": rname},
                        "%s(%s): %s" % (cls, case["kw"], items[0][1]),
                        {"kw": {k: str(v) for k, v in kw.items()}})
    ctx.sample({"cls": cls, "kw": {k: str(v) for k, v in kw.items()}, "how": case["how"],
                "config": {k: str(v) for k, v in q.get_config().items()}})
