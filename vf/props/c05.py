"""C05 - auto-scaled fixed point: output = recorded scale x in-range integer code."""
import random

import numpy as np

from vf.ref import bt

PID = "C05"
RULE = ("one case = (quantized_bits | quantized_linear, bits 2..8, integer 0..3, alpha in "
        "{auto, auto_po2}, scale_axis, elements_per_scale, po2 exponent bounds, optional frozen "
        "post_training_scale, tensor of rank 1..4, magnitude 1e-6..1e6, tensor kind incl. zero / "
        "pruned channels); the quantizer is called eagerly, `scale` read back, and the po2 "
        "equivariance is probed with 2^j*x. Non-trivial = every distinct case (all of them have a "
        "data-dependent scale), hashed by configuration+shape+kind+magnitude+seed.")
ANCHORS = [("qkeras/quantizers.py", 1352, 1428), ("qkeras/quantizers.py", 1021, 1101)]
ASSUMPTIONS = [
    "integrality of y/(scale*step) is checked to 1e-4 relative (float32 products)",
    "po2 equivariance is required only when every non-zero |x| >= 1e-3 and no exponent bound is set; "
    "a differing scale whose least-squares optimum sits within 0.02 of a rounding tie in log2 is skipped and counted",
    "'auto' top-code rule is enforced for symmetric formats (quantized_linear(symmetric=0) is observed)",
]
KERAS3_PASS = True
TIMEOUT = {"quick": 600, "thorough": 3000}
KINDS = ["normal", "uniform", "zero_channel", "zeros", "pruned", "one_hot", "positive"]
MAGS = [1e-6, 1e-3, 1.0, 1e3, 1e6]


def thresholds(tier):
  return {"events.quantized_bits": 600, "events.quantized_linear": 400, "code_checked": 1000,
          "po2_checked": 400, "auto_top_code_checked": 200, "equivariance_checked": 300,
          "frozen_scale_checked": 60, "distinct_nontrivial": 1500}


def cases(tier, seed, keras3=False):
  rnd = random.Random(seed * 7 + 1)
  n = 3200 if tier == "quick" else 30000
  if keras3:
    n = 400
  out = []
  for i in range(n):
    rank = rnd.choice([1, 2, 2, 3, 4, 4])
    shape = [rnd.choice([2, 3, 4, 6]) for _ in range(rank)]
    if rank >= 2 and rnd.random() < 0.12:
      shape[-1] = 1      # a single output channel (e.g. the kernel of a one-filter convolution): one scale for everything
    cls = rnd.choice(["quantized_bits", "quantized_bits", "quantized_linear"])
    alpha = rnd.choice(["auto", "auto_po2", "auto_po2"])
    kw = {"bits": rnd.randint(2, 8), "integer": rnd.randint(0, 3), "alpha": alpha}
    if cls == "quantized_linear":
      kw["symmetric"] = rnd.choice([1, 1, 0])
      kw["keep_negative"] = rnd.choice([True, True, False])
    else:
      kw["keep_negative"] = rnd.choice([True, True, True, False])
    if rank >= 2 and rnd.random() < 0.4:
      sa = rnd.randrange(rank)
      kw["scale_axis"] = sa
      if cls == "quantized_bits" and alpha == "auto_po2" and rnd.random() < 0.5:
        divs = [d for d in (1, 2, 3) if shape[sa] % d == 0]
        kw["elements_per_scale"] = rnd.choice(divs)
    if cls == "quantized_bits" and alpha == "auto_po2" and rnd.random() < 0.3:
      lo = rnd.choice([None, -4, -2, 0])
      hi = rnd.choice([None, 0, 2]) if lo is None else rnd.choice([None, lo, lo + 2])
      if lo is not None:
        kw["min_po2_exponent"] = lo
      if hi is not None:
        kw["max_po2_exponent"] = hi
    case = {"cls": cls, "kw": kw, "shape": shape, "kind": rnd.choice(KINDS),
            "mag": rnd.choice(MAGS), "frozen": cls == "quantized_bits" and rnd.random() < 0.15,
            "j": rnd.choice([-3, -2, -1, 1, 2, 3]), "idx": i, "seed": seed}
    # how the configuration is reached (vf.qenv.build): the way every Q layer reaches auto_po2 is
    # alpha=None + _set_trainable_parameter(), which also makes the format symmetric
    r = rnd.random()
    if alpha == "auto_po2" and r < 0.2:
      kw["symmetric"] = 1
      case["route"] = "trainable"
    elif cls == "quantized_bits" and r < 0.3:
      case["route"] = "mutate"
    out.append(case)
  return out


def make_tensor(case, rng):
  shape = tuple(case["shape"])
  mag, kind = case["mag"], case["kind"]
  x = rng.normal(0, mag, size=shape)
  if kind == "uniform":
    x = rng.uniform(-mag, mag, size=shape)
  elif kind == "zero_channel":
    x[..., 0] = 0.0
  elif kind == "zeros":
    x = np.zeros(shape)
  elif kind == "pruned":
    x = x * (rng.random(size=shape) < 0.3)
  elif kind == "one_hot":
    x = np.zeros(shape)
    x.flat[int(rng.integers(0, x.size))] = mag
  elif kind == "positive":
    x = np.abs(x)
  return x.astype(np.float32)


def fmt_of(case):
  kw = case["kw"]
  keep = 1 if kw.get("keep_negative", True) else 0
  bits = kw["bits"]
  step = 2.0 ** (kw["integer"] - (bits - keep))
  if case["cls"] == "quantized_bits":
    top = 2 ** (bits - 1) - 1
    return step, -top, top
  m = 2 ** (bits - keep)
  sym = 1 if kw.get("symmetric", 1) else 0
  return step, keep * (-m + sym), m - 1


def check_output(ctx, case, base, x, y, s_raw, tag):
  step, lo, hi = fmt_of(case)
  try:
    s = np.broadcast_to(np.asarray(s_raw, dtype=np.float64), x.shape)
  except ValueError:
    ctx.violation(dict(base, kind="scale_not_broadcastable"), "scale shape %s vs %s" % (np.shape(s_raw), x.shape), None)
    return None
  if not np.all(np.isfinite(y)):
    ctx.violation(dict(base, kind="non_finite_output"), "finite input -> non-finite output (%s)" % tag,
                  {"x": x.ravel()[:8].tolist(), "y": y.ravel()[:8].tolist()})
    return None
  if not np.all(np.isfinite(s)):
    ctx.violation(dict(base, kind="non_finite_scale"), "scale %r (%s)" % (s.ravel()[:4].tolist(), tag), None)
    return None
  if (s <= 0).any():
    xz = np.abs(x.astype(np.float64))
    ctx.violation(dict(base, kind="scale_not_positive", zero_channel=bool((s == 0).any())),
                  "exposed scale has %d non-positive entries (%s)" % (int((s <= 0).sum()), tag),
                  {"scale": np.asarray(s_raw, dtype=np.float64).ravel()[:8].tolist()})
  yf = y.astype(np.float64)
  ok_s = s > 0
  k = np.where(ok_s, yf / np.where(ok_s, s * step, 1.0), 0.0)
  kr = np.round(k)
  ctx.count("code_checked")
  ctx.evals(k.size)
  # domain (as in C01): inputs below 2^22 quantization steps; beyond that float32
  # absorbs the code in x + (-x + xq)
  dom = np.abs(x.astype(np.float64)) < 2.0 ** 22 * s * step
  dom |= ~ok_s
  if not dom.all():
    ctx.skip("elements_beyond_2^22_steps", int((~dom).sum()))
  bad = (np.abs(k - kr) > 1e-4 * np.maximum(1.0, np.abs(k))) & dom
  bad |= (~ok_s) & (yf != 0)
  kr = np.where(dom, kr, 0.0)
  if bad.any():
    i = int(np.argmax(bad))
    ctx.violation(dict(base, kind="output_not_scale_times_integer"),
                  "y=%r, scale=%r, step=%r -> code %r (%s)" % (float(yf.flat[i]), float(s.flat[i]), step, float(k.flat[i]), tag),
                  {"x": float(x.flat[i]), "y": float(yf.flat[i]), "scale": float(s.flat[i])})
    return s
  if (kr < lo).any() or (kr > hi).any():
    i = int(np.argmax((kr < lo) | (kr > hi)))
    ctx.violation(dict(base, kind="code_out_of_range"),
                  "code %d outside [%d, %d] (%s)" % (kr.flat[i], lo, hi, tag),
                  {"x": float(x.flat[i]), "y": float(yf.flat[i]), "scale": float(s.flat[i])})
  return s


def run_case(case, ctx):
  from vf import qenv
  cls, kw = case["cls"], dict(case["kw"])
  alpha = kw["alpha"]
  rank = len(case["shape"])
  base = {"cls": cls, "alpha": alpha,
          "grouping": ("none" if kw.get("scale_axis") is None else
                       ("axis" if kw.get("elements_per_scale") is None else "axis+eps"))}
  rng = np.random.default_rng(case["seed"] * 92821 + case["idx"])
  x = make_tensor(case, rng)
  ok, q = ctx.call(base, qenv.build, {"cls": cls, "kw": kw, "route": case.get("route"),
                                      "seed": case["seed"], "idx": case["idx"]})
  if not ok:
    return
  if case.get("route"):
    ctx.count("route." + case["route"])
  ok, y = ctx.call(base, qenv.call, q, x)
  if not ok:
    return
  ctx.count("events." + cls)
  ctx.nontrivial(cls, sorted(kw.items(), key=str), case["shape"], case["kind"], case["mag"], case["seed"], case["idx"])
  s_raw = qenv.as_np(q.scale)
  ctx.sample({"case": {k: case[k] for k in ("cls", "kw", "shape", "kind", "mag")},
              "x": x.ravel()[:5].tolist(), "y": y.ravel()[:5].tolist(),
              "scale": np.asarray(s_raw, dtype=np.float64).ravel()[:5].tolist()})
  s = check_output(ctx, case, base, x, y, s_raw, "call")
  if s is None:
    return
  step, lo, hi = fmt_of(case)
  xf, yf = x.astype(np.float64), y.astype(np.float64)
  sa, eps = kw.get("scale_axis"), kw.get("elements_per_scale")
  # one scale per channel / group (rank >= 2)
  if rank >= 2:
    gid = bt.group_ids(x.shape, sa, eps)
    g = gid.ravel()
    ng = int(g.max()) + 1
    smin = np.full(ng, np.inf)
    smax = np.full(ng, -np.inf)
    np.minimum.at(smin, g, s.ravel())
    np.maximum.at(smax, g, s.ravel())
    ctx.count("groups_checked")
    if (smax - smin > 1e-6 * np.maximum(smax, 1e-30)).any():
      ctx.violation(dict(base, kind="scale_not_constant_per_channel"),
                    "scale varies inside a channel/group", {"scale_shape": list(np.shape(s_raw))})
    # 'auto': channel maximum maps to the top code, not clipped
    symmetric = cls == "quantized_bits" or (kw.get("symmetric", 1) and kw.get("keep_negative", True))
    unsigned_linear = cls == "quantized_linear" and not kw.get("keep_negative", True)
    if alpha == "auto" and eps is None and (symmetric or unsigned_linear):
      xm = np.zeros(ng)
      ym = np.zeros(ng)
      src = xf if not unsigned_linear else np.maximum(xf, 0)
      if cls == "quantized_bits" and not kw.get("keep_negative", True):
        src = xf
      np.maximum.at(xm, g, np.abs(src).ravel())
      np.maximum.at(ym, g, np.abs(yf).ravel())
      big = xm > 1e-4 * max(case["mag"], 1e-30)      # well above the epsilon floor
      # the scale is floored at K.epsilon() = 1e-7: a channel maximum below epsilon * (number of codes) cannot be
      # the top code (false alarm of the thorough tier with bits=8 and max |x| = 1.0e-5, appendix C)
      big &= xm > np.maximum(1e-5, 2e-7 * 2.0 ** kw["bits"])
      ctx.count("auto_top_code_checked")
      rel = np.abs(ym - xm) / np.where(xm > 0, xm, 1.0)
      if (big & (rel > 2e-6)).any():
        c = int(np.argmax(big & (rel > 2e-6)))
        ctx.violation(dict(base, kind="auto_channel_maximum_not_top_code"),
                      "channel max |x| = %g but max |y| = %g" % (xm[c], ym[c]), None)
    elif alpha == "auto":
      ctx.observe("auto_top_code_not_enforced_for_asymmetric_linear")
  # auto_po2: exact powers of two inside the configured bounds
  if alpha == "auto_po2":
    ctx.count("po2_checked")
    pos = s[s > 0]
    m, e = np.frexp(pos)
    if (m != 0.5).any():
      ctx.violation(dict(base, kind="scale_not_power_of_two"), "scale %r" % pos[m != 0.5][:3].tolist(), None)
    else:
      # the bounds constrain the scale in the quantizer's own units, i.e. the
      # exposed scale divided by 2^(bits - keep_negative) (weaker reading of the
      # statement, the one the unchanged code satisfies; DESIGN section 5/C05)
      e = e - 1 - (kw["bits"] - (1 if kw.get("keep_negative", True) else 0))
      lo_e, hi_e = kw.get("min_po2_exponent"), kw.get("max_po2_exponent")
      if (lo_e is not None and (e < lo_e).any()) or (hi_e is not None and (e > hi_e).any()):
        ctx.violation(dict(base, kind="scale_exponent_outside_bounds"),
                      "exponents %r (exposed scale / 2^unsigned_bits) outside [%r, %r]" % (sorted(set(e.tolist()))[:6], lo_e, hi_e), None)
      elif lo_e is not None or hi_e is not None:
        ctx.count("po2_bounds_checked")
  # frozen post-training scale reproduces the outputs and is what is exposed
  if case["frozen"] and np.all(np.isfinite(np.asarray(s_raw, dtype=np.float64))):
    kw2 = dict(kw)
    kw2["post_training_scale"] = np.asarray(s_raw, dtype=np.float32)
    ok, q2 = ctx.call(dict(base, op="frozen"), qenv.build, {"cls": cls, "kw": kw2})
    if ok:
      ok, y2 = ctx.call(dict(base, op="frozen"), qenv.call, q2, x)
      if ok:
        ctx.count("frozen_scale_checked")
        s2 = qenv.as_np(q2.scale)
        if not np.array_equal(np.asarray(s2, dtype=np.float32), np.asarray(s_raw, dtype=np.float32)):
          ctx.violation(dict(base, kind="frozen_scale_changed"), "post_training_scale not exposed unchanged", None)
        if (s > 0).all() and not np.array_equal(y2, y):
          d = np.abs(y2.astype(np.float64) - yf)
          i = int(np.argmax(d))
          ctx.violation(dict(base, kind="frozen_scale_output_differs"),
                        "x=%r: %r with data scale, %r with the same scale frozen" % (float(x.flat[i]), float(y.flat[i]), float(y2.flat[i])), None)
        # another tensor: still scale x in-range code
        x3 = make_tensor(dict(case, kind="normal"), rng)
        ok, y3 = ctx.call(dict(base, op="frozen"), qenv.call, q2, x3)
        if ok and (s > 0).all():
          check_output(ctx, case, dict(base, op="frozen"), x3, y3, qenv.as_np(q2.scale), "frozen scale, new data")
        elif ok and np.shape(y3) == np.shape(s):
          # a channel recorded with scale 0 (all-zero / pruned when the scale was taken): exposed scale x code is 0
          # whatever the later data holds
          ctx.count("frozen_zero_scale_channels_checked")
          z = (s == 0)
          y3f = np.asarray(y3, dtype=np.float64)
          if z.any() and not (y3f[z] == 0).all():
            i = int(np.argmax(np.where(z, np.abs(np.nan_to_num(y3f, nan=np.inf)), 0)))
            ctx.violation(dict(base, op="frozen", kind="frozen_zero_scale_channel_output_not_zero"),
                          "x=%r -> %r in a channel whose exposed (frozen) scale is 0" % (float(x3.flat[i]), float(y3f.flat[i])), None)
  # power-of-two equivariance
  nzm = np.abs(xf[xf != 0])
  no_bounds = kw.get("min_po2_exponent") is None and kw.get("max_po2_exponent") is None
  j = case["j"]
  # magnitudes whose squares are far above keras' epsilon (1e-7), which the least-squares iteration adds to its
  # denominators: at |x| ~ 1e-3 the absolute epsilon makes the fitted scale non-equivariant (false alarm, appendix C)
  if nzm.size and nzm.min() >= 1e-2 and nzm.min() * 2.0 ** j >= 1e-2 and no_bounds and (s > 0).all() \
      and np.abs(xf).max() * 2.0 ** max(j, 0) < 1e30:
    ok, q3 = ctx.call(base, qenv.build, {"cls": cls, "kw": kw})
    xj = (xf * 2.0 ** j).astype(np.float32)
    ok, yj = ctx.call(base, qenv.call, q3, xj)
    if ok:
      ctx.count("equivariance_checked")
      want = yf * 2.0 ** j
      tol = (1e-6 if alpha == "auto" else 0.0) * np.abs(want) + (1e-6 * np.abs(want) if cls == "quantized_linear" and alpha == "auto" else 0)
      if (np.abs(yj.astype(np.float64) - want) > tol).any():
        sj = np.broadcast_to(np.asarray(qenv.as_np(q3.scale), dtype=np.float64), x.shape)
        scale_equiv = np.allclose(sj, s * 2.0 ** j, rtol=1e-6, atol=0)
        tie = False
        if alpha == "auto_po2" and not scale_equiv and rank >= 2:
          gid = bt.group_ids(x.shape, sa, eps)
          for (xx, yy, ss) in ((xf, yf, s), (xj.astype(np.float64), yj.astype(np.float64), sj)):
            code = np.round(yy / (ss * step))
            rs, _ = bt.ls_scale(xx / (2.0 ** kw["integer"]), code, gid)
            # the library works on x / 2^integer with scale/m; the optimum in exposed units:
            with np.errstate(divide="ignore"):
              l = np.log2(np.maximum(rs, 1e-300))
            frac = np.abs((l - np.floor(l)) - 0.5)
            if (frac < 0.02).any():
              tie = True
        if tie:
          ctx.skip("equivariance_scale_rounding_tie")
        else:
          i = int(np.argmax(np.abs(yj.astype(np.float64) - want)))
          ctx.violation(dict(base, kind="not_power_of_two_equivariant"),
                        "q(2^%d x) != 2^%d q(x): x=%r q(x)=%r q(2^j x)=%r (scales equivariant: %s)" % (
                            j, j, float(x.flat[i]), float(y.flat[i]), float(yj.flat[i]), scale_equiv),
                        {"x": float(x.flat[i]), "j": j})
