"""C06 - gradients are those of the straight-through surrogate."""
import itertools
import random

import numpy as np

PID = "C06"
RULE = ("one case = (quantizer class, option combination incl. use_ste, qnoise_factor, slopes, "
        "upper bounds, alpha/auto scale, sigmoid flavour); 241 grid points + 64 random points "
        "spanning clipped and unclipped regions (kinks excluded by +-1e-2); tf.GradientTape "
        "gradient compared with the documented surrogate's gradient. Non-trivial = distinct "
        "(configuration) cases; each contributes points in at least two gradient regions.")
ANCHORS = [("qkeras/quantizers.py", 616, 671), ("qkeras/quantizers.py", 1424, 1428),
           ("qkeras/quantizers.py", 1448, 1452), ("qkeras/quantizers.py", 2414, 2418),
           ("qkeras/quantizers.py", 2898, 2902), ("qkeras/quantizers.py", 3064, 3068),
           ("qkeras/quantizers.py", 1009, 1019)]
ASSUMPTIONS = [
    "use_ste=False is documented as (1-f)*x + stop_gradient(f*xq): its gradient is (1-f) times the surrogate's",
    "points within 1e-2 of a kink / clip edge of the surrogate are not compared",
]
TIMEOUT = {"quick": 600, "thorough": 2400}


def thresholds(tier):
  return {"gradients_checked": 700, "distinct_nontrivial": 700,
          "points_unclipped": 50000, "points_clipped": 5000}


def cases(tier, seed):
  out = []
  P = itertools.product
  bitsq = [1, 2, 4, 8] if tier == "quick" else [1, 2, 3, 4, 6, 8, 12]
  for bits, integer, alpha, ste, f, keep in P(bitsq, [0, 2], [None, 2.0, 0.5, "auto", "auto_po2"],
                                              [True, False], [1.0, 0.5, 0.0], [True, False]):
    if isinstance(alpha, str) and (not keep or bits < 2):
      continue
    out.append({"cls": "quantized_bits", "kw": {"bits": bits, "integer": integer, "alpha": alpha, "use_ste": ste,
                                                  "qnoise_factor": f, "keep_negative": keep,
                                                  "symmetric": 1 if isinstance(alpha, str) else 0}})
  for bits, integer, keep, alpha, f, sym in P([1, 2, 4, 8], [0, 2], [True, False], [None, 2.0, "auto", "auto_po2"],
                                              [1.0, 0.5, 0.0], [1, 0]):
    out.append({"cls": "quantized_linear", "kw": {"bits": bits, "integer": integer, "symmetric": sym,
                                                    "keep_negative": keep, "alpha": alpha, "qnoise_factor": f}})
  for bits, integer, slope, iqc, rub, ste, f in P([2, 4, 8], [0, 2], [0.0, 0.25, 0.125], [True, False],
                                                  [None, 1.5, 0.75], [True, False], [1.0, 0.5, 0.0]):
    if slope and slope * 2 ** (bits - 1) < 1:
      continue
    out.append({"cls": "quantized_relu", "kw": {"bits": bits, "integer": integer, "negative_slope": slope,
                                                  "is_quantized_clip": iqc, "relu_upper_bound": rub,
                                                  "use_ste": ste, "qnoise_factor": f}})
  for bits, mv, ste, f, mode in P([3, 5, 8], [None, 2.0, 0.5], [True, False], [1.0, 0.5, 0.0], ["rnd", "floor"]):
    out.append({"cls": "quantized_po2", "kw": {"bits": bits, "max_value": mv, "use_ste": ste, "qnoise_factor": f,
                                                 "log2_rounding": mode}})
    for slope in (0, 0.25):
      out.append({"cls": "quantized_relu_po2", "kw": {"bits": bits, "max_value": mv, "negative_slope": slope,
                                                        "use_ste": ste, "qnoise_factor": f, "log2_rounding": mode}})
  for cls in ("binary", "ternary", "stochastic_binary", "stochastic_ternary"):
    for alpha in (None, 1.0, 2.0, "auto", "auto_po2"):
      out.append({"cls": cls, "kw": {"alpha": alpha}})
  out.append({"cls": "binary", "kw": {"alpha": 1.0, "use_01": True}})
  for alpha in (None, 2.0, "auto"):
    out.append({"cls": "binary", "kw": {"alpha": alpha, "use_01": True}})
  out.append({"cls": "ternary", "kw": {"alpha": 1.0, "threshold": 0.7}})
  for bits, sym, real, sig in P([2, 4, 8], [False, True], [False, True], ["hard", "smooth"]):
    if real and sig == "smooth":
      continue
    out.append({"cls": "quantized_tanh", "kw": {"bits": bits, "symmetric": sym, "use_real_tanh": real}, "sigmoid": sig})
    out.append({"cls": "quantized_sigmoid", "kw": {"bits": bits, "symmetric": sym, "use_real_sigmoid": real}, "sigmoid": sig})
  for bits, integer, f in P([4, 8], [1, 3], [1.0, 0.5]):
    out.append({"cls": "quantized_hswish", "kw": {"bits": bits, "integer": integer, "qnoise_factor": f}})
  random.Random(seed).shuffle(out)
  for i, c in enumerate(out):
    c["idx"], c["seed"] = i, seed
  return out


def points(rng, auto):
  x = np.linspace(-6, 6, 241) + 0.0137
  x = np.concatenate([x, rng.uniform(-8, 8, 64)])
  x = x.astype(np.float32)
  return x.reshape(-1, 1) if auto else x


def reference(case, q, x):
  """Returns (expected gradient, mask of points to compare, region labels)."""
  from vf import qenv
  cls, kw = case["cls"], case["kw"]
  x64 = x.astype(np.float64)
  f = float(kw.get("qnoise_factor", 1.0))
  ste = kw.get("use_ste", True)
  one = np.ones_like(x64)
  mask = np.ones(x.shape, dtype=bool)
  clipped = np.zeros(x.shape, dtype=bool)
  if cls == "quantized_bits":
    g = one if ste else one * (1 - f)
  elif cls == "quantized_hswish":
    sh, ub = kw.get("relu_shift", 3), kw.get("relu_upper_bound", 6)
    g = np.where(x64 + sh <= 0, 0.0, np.where(x64 + sh <= ub, (2 * x64 + sh) / ub, 1.0))
    mask = (np.abs(x64 + sh) > 1e-2) & (np.abs(x64 + sh - ub) > 1e-2)
    clipped = x64 + sh <= 0
  elif cls == "quantized_linear":
    qs = np.asarray(qenv.as_np(q.quantization_scale), dtype=np.float64)
    qs = np.broadcast_to(qs, x.shape)
    keep = 1 if kw.get("keep_negative", True) else 0
    bits = kw["bits"]
    if bits == 1 and keep:
      cmin, cmax = -0.5, 0.5
    else:
      m = 2.0 ** (bits - keep)
      cmin, cmax = keep * (-m + (1 if kw.get("symmetric", 1) else 0)), m - 1
    u = x64 / qs
    inside = (u > cmin) & (u < cmax)
    g = np.where(inside, 1.0, 1.0 - f)
    mask = np.minimum(np.abs(u - cmin), np.abs(u - cmax)) > 1e-2 * np.maximum(1.0, 1.0 / qs)
    clipped = ~inside
  elif cls == "quantized_relu":
    bits, integer, slope = kw["bits"], kw["integer"], kw.get("negative_slope", 0.0)
    nsb = bits - (1 if slope else 0)
    if kw.get("is_quantized_clip", True):
      ub = 2.0 ** integer - 2.0 ** (integer - nsb)
    elif kw.get("relu_upper_bound") is not None:
      ub = kw["relu_upper_bound"]
    else:
      ub = np.inf
    gs = np.where(x64 > ub, 0.0, np.where(x64 > 0, 1.0, slope))
    g = gs if ste else gs * (1 - f)
    mask = (np.abs(x64) > 1e-2) & (np.abs(x64 - ub) > 1e-2)
    clipped = (x64 > ub) | ((x64 < 0) & (slope == 0))
  elif cls == "quantized_po2":
    g = one if ste else one * (1 - f)
  elif cls == "quantized_relu_po2":
    slope = kw.get("negative_slope", 0)
    ub = np.inf if kw.get("max_value") is None else kw["max_value"]
    gs = np.where(x64 > ub, 0.0, np.where(x64 > 0, 1.0, slope))
    g = gs if ste else gs * (1 - f)
    mask = (np.abs(x64) > 1e-2) & (np.abs(x64 - ub) > 1e-2)
    clipped = (x64 > ub) | ((x64 < 0) & (slope == 0))
  elif cls in ("binary", "ternary", "stochastic_binary", "stochastic_ternary"):
    g = (1 - np.tanh(x64) ** 2) if kw.get("alpha") is None else one
  elif cls in ("quantized_tanh", "quantized_sigmoid"):
    sig = case.get("sigmoid", "hard")
    a = 0.5 if sig == "hard" else 0.1875
    if cls == "quantized_tanh":
      m = 2.0 ** (kw["bits"] - 1)
      if kw.get("use_real_tanh"):
        s = np.tanh(x64); ds = 1 - s ** 2; kink = np.zeros(x.shape, bool)
      else:
        lin = a * x64 + 0.5
        s = 2 * np.clip(lin, 0, 1) - 1
        ds = np.where((lin > 0) & (lin < 1), 2 * a, 0.0)
        kink = (np.abs(lin) < 1e-2) | (np.abs(lin - 1) < 1e-2)
      lo, hi = -1 + (1.0 if kw.get("symmetric") else 0.0) / m, 1 - 1 / m
    else:
      m = 2.0 ** kw["bits"]
      if kw.get("use_real_sigmoid"):
        s = 1 / (1 + np.exp(-x64)); ds = s * (1 - s); kink = np.zeros(x.shape, bool)
      else:
        lin = a * x64 + 0.5
        s = np.clip(lin, 0, 1)
        ds = np.where((lin > 0) & (lin < 1), a, 0.0)
        kink = (np.abs(lin) < 1e-2) | (np.abs(lin - 1) < 1e-2)
      lo, hi = (1.0 if kw.get("symmetric") else 0.0) / m, 1 - 1 / m
    rr = np.round(s * m) / m
    frac = np.abs(s * m - np.floor(s * m) - 0.5)
    inside = (rr > lo) & (rr < hi)
    g = np.where(inside, ds, 0.0)
    edge = (np.abs(rr - lo) < 1e-9) | (np.abs(rr - hi) < 1e-9)
    # where the rounded value sits exactly on a clip bound K.clip passes the gradient through
    g = np.where(edge, ds, g)
    mask = ~kink & (frac > 1e-3)
    clipped = ~inside & ~edge
  else:
    raise ValueError(cls)
  return g, mask, clipped


def run_case(case, ctx):
  from vf import qenv
  import tensorflow as tf
  cls, kw = case["cls"], dict(case["kw"])
  alpha = kw.get("alpha")
  auto = isinstance(alpha, str)
  base = {"cls": cls, "use_ste": bool(kw.get("use_ste", True)),
          "alpha": qenv.alpha_class(alpha) if alpha is not None or cls in ("binary", "ternary", "quantized_bits", "quantized_linear", "stochastic_binary", "stochastic_ternary") else "n/a"}
  rng = np.random.default_rng(case["seed"] * 4099 + case["idx"])
  x = points(rng, auto)
  with qenv.sigmoid_mode(case.get("sigmoid")):
    ok, q = ctx.call(base, qenv.build, {"cls": cls, "kw": kw})
    if not ok:
      return

    def fwd_bwd():
      xs = tf.constant(x)
      with tf.GradientTape() as t:
        t.watch(xs)
        y = q(xs)
      return np.asarray(y), t.gradient(y, xs)

    ok, res = ctx.call(base, fwd_bwd)
    if not ok:
      return
    y, g = res
    ctx.count("gradients_checked")
    ctx.seen("classes", cls)
    ctx.nontrivial(cls, sorted(kw.items(), key=str), case.get("sigmoid"))
    if g is None:
      ctx.violation(dict(base, kind="gradient_is_none"), "no gradient path from output to input", None)
      return
    g = np.asarray(g, dtype=np.float64)
    if not np.all(np.isfinite(g)):
      i = int(np.argmax(~np.isfinite(g)))
      ctx.violation(dict(base, kind="gradient_not_finite"), "gradient %r at x=%r" % (g.flat[i], float(x.flat[i])), None)
      return
    ok, y0 = ctx.call(base, qenv.call, q, x)
    if ok and not np.array_equal(y0, y, equal_nan=True):
      ctx.violation(dict(base, kind="forward_under_tape_differs"), "value under the tape differs from plain call", None)
    gref, mask, clipped = reference(case, q, x)
    ctx.evals(int(mask.sum()))
    ctx.count("points_unclipped", int((mask & ~clipped).sum()))
    ctx.count("points_clipped", int((mask & clipped).sum()))
    err = np.abs(g - gref)
    bad = mask & (err > 1e-5 + 1e-4 * np.abs(gref))
    ctx.sample({"case": {"cls": cls, "kw": case["kw"], "sigmoid": case.get("sigmoid")},
                "x": x.ravel()[100:104].tolist(), "gradient": g.ravel()[100:104].tolist(),
                "expected": gref.ravel()[100:104].tolist()})
    if bad.any():
      i = int(np.argmax(bad & (err == err[bad].max())))
      region = "clipped" if clipped.flat[i] else "unclipped"
      ctx.violation(dict(base, kind="gradient_mismatch", region=region),
                    "x=%r: gradient %g, surrogate gradient %g" % (float(x.flat[i]), g.flat[i], gref.flat[i]),
                    {"x": float(x.flat[i]), "got": float(g.flat[i]), "want": float(gref.flat[i]), "n_bad": int(bad.sum())})
    un = mask & ~clipped & (np.abs(gref) > 0)
    if un.any() and not np.any(g[un] != 0):
      ctx.violation(dict(base, kind="gradient_identically_zero"),
                    "gradient is zero on the whole unclipped range", None)


