"""C07 - qnoise_factor interpolation (part A) and the QNoiseScheduler trace (part B)."""
import itertools
import random

import numpy as np

PID = "C07"
RULE = ("part A: one case = (quantizer with the knob, option set, use_ste, way of setting the "
        "factor in {constructor, update before build, Variable-backed + update after build, "
        "built-then-rebuilt as the scheduler does}, sequence of 3 factors); oracle q_f(x) == u + "
        "f*(v-u) with u=q_0(x), v=q_1(x), and u == documented surrogate. part B: one case = "
        "(model family, start, finish, exponent, update_freq, freq_type, initial step, epochs x "
        "steps history); the real callback's hooks are driven and after every hook the factors "
        "of all knob-bearing quantizers are logged and checked against the trace specification. "
        "Non-trivial = distinct part-A (config, way, factors) and part-B (schedule, history) cases.")
ANCHORS = [("qkeras/base_quantizer.py", 49, 79), ("qkeras/quantizers.py", 993, 993),
           ("qkeras/quantizers.py", 1424, 1428), ("qkeras/quantizers.py", 2414, 2418),
           ("qkeras/quantizers.py", 2898, 2902), ("qkeras/callbacks.py", 84, 102),
           ("qkeras/callbacks.py", 132, 168)]
ASSUMPTIONS = [
    "interpolation is compared to 4 float32 ulps of max(1, |value|)",
    "scheduler exponent > 0; histories are driven through the callback hooks in Keras' order "
    "(train_begin, epoch_begin, train_batch_begin..., epoch_end)",
]
TIMEOUT = {"quick": 900, "thorough": 3000}
WORKERS = {"quick": 16, "thorough": 16}

MAKERS = {
    "quantized_bits": {"bits": 4, "integer": 1},
    "quantized_bits_sym8": {"bits": 8, "integer": 2, "symmetric": 1, "keep_negative": True},
    "quantized_bits_auto_po2": {"bits": 4, "integer": 1, "symmetric": 1, "alpha": "auto_po2"},
    "quantized_bits_alpha": {"bits": 5, "integer": 0, "alpha": 2.0},
    "quantized_linear": {"bits": 4, "integer": 1},
    "quantized_linear_auto": {"bits": 5, "integer": 0, "alpha": "auto"},
    "quantized_relu": {"bits": 4, "integer": 1},
    "quantized_relu_leaky": {"bits": 5, "integer": 1, "negative_slope": 0.25},
    "quantized_relu_ub": {"bits": 4, "integer": 2, "is_quantized_clip": False, "relu_upper_bound": 1.5},
    # a bound *above* the largest code (0.9375): surrogate and quantized value saturate at different levels
    "quantized_relu_ub_above": {"bits": 4, "integer": 0, "is_quantized_clip": False, "relu_upper_bound": 1.5},
    "quantized_relu_noclip": {"bits": 4, "integer": 0, "is_quantized_clip": False},
    "quantized_po2": {"bits": 4},
    "quantized_po2_mv": {"bits": 5, "max_value": 2.0},
    "quantized_relu_po2": {"bits": 4, "max_value": 2},
    "quantized_relu_po2_leaky": {"bits": 4, "negative_slope": 0.25},
    "quantized_hswish": {"bits": 6, "integer": 2},
}
NO_STE_ARG = ("quantized_linear", "quantized_hswish")
WAYS = ["ctor", "update_before_build", "variable_update_after_build", "built_then_rebuilt", "traced_variable"]
FAMILIES = ["dense_act", "conv_po2", "inline_activation", "rnn", "linear_act", "depthwise_hswish"]


def thresholds(tier):
  return {"A.interpolation_checked": 700, "A.surrogate_checked": 200, "B.histories": 80,
          "B.hook_events": 900, "B.update_steps_checked": 250, "F.fits": 4, "F.update_steps_checked": 10,
          "distinct_nontrivial": 700}


def cases(tier, seed):
  rnd = random.Random(seed + 17)
  out = []
  fgrid = [0.0, 0.125, 0.25, 0.5, 1.0]
  reps = 1 if tier == "quick" else 6
  for _ in range(reps):
    for name in MAKERS:
      for ste in (True, False):
        if not ste and name.startswith(NO_STE_ARG):
          continue
        for way in WAYS:
          for f in fgrid + [round(rnd.random(), 4), round(rnd.random(), 4)]:
            seq = [f, rnd.choice(fgrid + [round(rnd.random(), 3)]), rnd.choice([0.0, 1.0, round(rnd.random(), 3)])]
            out.append({"part": "A", "name": name, "ste": ste, "way": way, "factors": seq})
  nb = 260 if tier == "quick" else 3000
  for i in range(nb):
    start = rnd.choice([0, 0, 1, 2, 3, 5, 8])
    finish = start + rnd.choice([0, 1, 2, 3, 5, 9])
    out.append({"part": "B", "family": FAMILIES[i % len(FAMILIES)], "start": start, "finish": finish,
                "exponent": rnd.choice([0.5, 1.0, 3.0]), "update_freq": rnd.choice([1, 1, 2, 3]),
                "freq_type": rnd.choice(["step", "epoch"]), "initial": rnd.choice([0, 0, 1, 4]),
                "epochs": rnd.randint(1, 6), "steps": rnd.randint(1, 5), "use_ste": rnd.choice([True, False]),
                "freeze": rnd.random() < 0.3})
  # part F: the same trace specification observed through a real model.fit (hook order is Keras' own)
  nf = 12 if tier == "quick" else 120
  for i in range(nf):
    start = rnd.choice([0, 1, 2, 3])
    out.append({"part": "F", "family": rnd.choice(["dense_act", "conv_po2", "depthwise_hswish"]), "start": start,
                "finish": start + rnd.choice([0, 1, 2, 4]), "exponent": rnd.choice([1.0, 3.0]),
                "update_freq": rnd.choice([1, 2]), "freq_type": rnd.choice(["step", "epoch"]), "initial": rnd.choice([0, 1]),
                "epochs": rnd.randint(2, 4), "steps": rnd.randint(2, 4), "use_ste": rnd.choice([True, False])})
  rnd.shuffle(out)
  for i, c in enumerate(out):
    c["idx"], c["seed"] = i, seed
  return out


# ---------------------------------------------------------------- part A
def _class_of(name):
  for c in ("quantized_relu_po2", "quantized_relu", "quantized_po2", "quantized_hswish",
            "quantized_linear", "quantized_bits"):
    if name.startswith(c):
      return c
  raise ValueError(name)


def surrogate_of(name, kw, x):
  x64 = x.astype(np.float64)
  cls = _class_of(name)
  if cls in ("quantized_bits", "quantized_linear", "quantized_po2"):
    return x64
  if cls == "quantized_relu":
    slope = kw.get("negative_slope", 0.0)
    nsb = kw["bits"] - (1 if slope else 0)
    r = np.where(x64 >= 0, x64, slope * x64)
    if kw.get("is_quantized_clip", True):
      ub = 2.0 ** kw["integer"] - 2.0 ** (kw["integer"] - nsb)
      return np.where(x64 <= ub, r, ub)
    if kw.get("relu_upper_bound") is not None:
      return np.where(x64 <= kw["relu_upper_bound"], r, kw["relu_upper_bound"])
    return r
  if cls == "quantized_relu_po2":
    slope = kw.get("negative_slope", 0)
    r = np.where(x64 >= 0, x64, slope * x64)
    if kw.get("max_value") is not None:
      return np.where(x64 <= kw["max_value"], r, kw["max_value"])
    return r
  if cls == "quantized_hswish":
    sh, ub = 3.0, 6.0
    return x64 * np.clip(x64 + sh, 0, ub) / ub
  raise ValueError(cls)


def run_a(case, ctx):
  from vf import qenv
  import tensorflow as tf
  name, ste, way = case["name"], case["ste"], case["way"]
  cls = _class_of(name)
  kw0 = dict(MAKERS[name])
  if cls not in NO_STE_ARG:
    kw0["use_ste"] = ste
  base = {"part": "A", "cls": cls, "way": way, "use_ste": ste}
  rng = np.random.default_rng(case["seed"] * 613 + case["idx"])
  x = np.concatenate([np.linspace(-3, 3, 61), rng.normal(0, 2, 40)]).astype(np.float32)
  if "auto" in str(kw0.get("alpha")):
    x = x.reshape(-1, 1)

  def mk(**extra):
    kw = dict(kw0)
    kw.update(extra)
    return qenv.build({"cls": cls, "kw": kw})

  ok, u = ctx.call(base, lambda: qenv.call(mk(qnoise_factor=0.0), x).astype(np.float64))
  ok2, v = ctx.call(base, lambda: qenv.call(mk(qnoise_factor=1.0), x).astype(np.float64))
  if not (ok and ok2):
    return
  s = surrogate_of(name, kw0, x)
  ctx.count("A.surrogate_checked")
  if np.abs(u - s).max() > 4 * 2.0 ** -23 * max(1.0, np.abs(s).max()):
    i = int(np.argmax(np.abs(u - s)))
    ctx.violation(dict(base, kind="factor_zero_is_not_the_unquantized_activation"),
                  "x=%r: q_0(x)=%r, surrogate=%r" % (float(x.flat[i]), float(u.flat[i]), float(s.flat[i])), None)
  q = None
  state = {}
  for step_i, f in enumerate(case["factors"]):
    def produce():
      nonlocal q
      if way == "ctor":
        q = mk(qnoise_factor=f)
      elif way == "update_before_build":
        if q is None:
          q = mk()
        q.update_qnoise_factor(f)
      elif way == "variable_update_after_build":
        if q is None:
          q = mk(use_variables=True)
          qenv.call(q, x)
        q.update_qnoise_factor(f)
      elif way == "built_then_rebuilt":
        if q is None:
          q = mk()
          qenv.call(q, x)
          if cls != "quantized_linear":
            q.use_variables = True
          q.build(use_variables=True)
        q.update_qnoise_factor(f)
      elif way == "traced_variable":
        # the mode used during training: the quantizer is traced once inside a tf.function (first factor set
        # before the build), later factors only reach the graph through the tf.Variable
        if q is None:
          q = mk(use_variables=True)
          q.update_qnoise_factor(f)
          qq = q
          state["fn"] = tf.function(lambda t: qq(t))
        else:
          q.update_qnoise_factor(f)
        return np.asarray(state["fn"](tf.constant(x))).astype(np.float64)
      return qenv.call(q, x).astype(np.float64)
    ok, o = ctx.call(base, produce)
    if not ok:
      return
    if way in ("variable_update_after_build", "built_then_rebuilt", "traced_variable") and not isinstance(q.qnoise_factor, tf.Variable):
      ctx.violation(dict(base, kind="factor_not_variable_backed"), "qnoise_factor is %s" % type(q.qnoise_factor).__name__, None)
    ref = u + f * (v - u)
    tol = 4 * 2.0 ** -23 * np.maximum(1.0, np.abs(ref)) + 1e-7
    ctx.count("A.interpolation_checked")
    ctx.evals(o.size)
    ctx.nontrivial("A", name, ste, way, tuple(case["factors"][:step_i + 1]))
    bad = np.abs(o - ref) > tol
    if bad.any() and way == "traced_variable":
      # a data-dependent scale computed inside the traced graph may differ in the last bit from the eager one and
      # flip a rounding tie: where the traced function's own f=1 output differs from the eager one (and from its own
      # f=0 output, i.e. the factor does reach the graph), the traced pair (u2, v2) is the reference
      try:
        q.update_qnoise_factor(1.0)
        v2 = np.asarray(state["fn"](tf.constant(x))).astype(np.float64)
        q.update_qnoise_factor(0.0)
        u2 = np.asarray(state["fn"](tf.constant(x))).astype(np.float64)
        q.update_qnoise_factor(f)
        alt = (np.abs(o - (u2 + f * (v2 - u2))) <= tol) & (np.abs(v2 - v) > tol) & (np.abs(v2 - u2) > tol)
        if alt[bad].all():
          ctx.skip("A.rounding_tie_flipped_between_eager_and_traced_scale", int(bad.sum()))
          bad = np.zeros_like(bad)
      except Exception:      # pylint: disable=broad-except
        pass
    if bad.any():
      i = int(np.argmax(np.where(bad, np.abs(o - ref) - tol, -np.inf)))
      ctx.violation(dict(base, kind="not_the_interpolation", which=("first" if step_i == 0 else "after_update")),
                    "f=%r x=%r: got %r, u+f*(v-u)=%r (u=%r v=%r)" % (f, float(x.flat[i]), float(o.flat[i]), float(ref.flat[i]), float(u.flat[i]), float(v.flat[i])),
                    {"factors": case["factors"], "step": step_i})
      return
    got = float(np.asarray(qenv.as_np(q.qnoise_factor)))
    if abs(got - f) > 1e-6:
      ctx.violation(dict(base, kind="factor_read_back_differs"), "set %r, reads %r" % (f, got), None)
  ctx.sample({"part": "A", "name": name, "kw": kw0, "way": way, "factors": case["factors"],
              "x": x.ravel()[:3].tolist(), "u": u.ravel()[:3].tolist(), "v": v.ravel()[:3].tolist()})


# ---------------------------------------------------------------- part B
def build_model(family):
  import tensorflow as tf
  from qkeras import QDense, QActivation, QConv2D, QDepthwiseConv2D, QSimpleRNN
  from qkeras import quantizers as Q
  L = tf.keras.layers
  if family == "dense_act":
    i = L.Input((4,))
    x = QDense(3, kernel_quantizer=Q.quantized_bits(4, 0, 1), bias_quantizer=Q.quantized_bits(4, 0, 1), name="d")(i)
    x = QActivation(Q.quantized_relu(4, 1), name="a")(x)
    x = QDense(2, kernel_quantizer=Q.quantized_po2(4), bias_quantizer=Q.quantized_po2(4), name="d2")(x)
  elif family == "conv_po2":
    i = L.Input((5, 5, 2))
    x = QConv2D(2, 2, kernel_quantizer=Q.quantized_bits(4, 0, 1), bias_quantizer=Q.quantized_po2(4), name="c")(i)
    x = QActivation(Q.quantized_relu_po2(4), name="a")(x)
  elif family == "inline_activation":
    i = L.Input((4,))
    x = QDense(3, kernel_quantizer=Q.quantized_bits(4, 0, 1), bias_quantizer=Q.quantized_bits(4, 0, 1),
               activation=Q.quantized_relu(4, 1), name="d")(i)
  elif family == "rnn":
    i = L.Input((3, 2))
    x = QSimpleRNN(2, kernel_quantizer=Q.quantized_bits(4, 0, 1), recurrent_quantizer=Q.quantized_bits(4, 0, 1),
                   bias_quantizer=Q.quantized_bits(4, 0, 1), state_quantizer=Q.quantized_bits(4, 0, 1), name="r")(i)
  elif family == "linear_act":
    i = L.Input((4,))
    x = QActivation(Q.quantized_linear(4, 1), name="a")(i)
    x = QDense(2, kernel_quantizer=Q.quantized_bits(4, 0, 1), bias_quantizer=Q.quantized_bits(4, 0, 1), name="d")(x)
  elif family == "depthwise_hswish":
    i = L.Input((5, 5, 2))
    x = QDepthwiseConv2D(2, depthwise_quantizer=Q.quantized_bits(4, 0, 1), bias_quantizer=Q.quantized_bits(4, 0, 1), name="dw")(i)
    x = QActivation(Q.quantized_hswish(6, 2), name="a")(x)
  else:
    raise ValueError(family)
  return tf.keras.Model(i, x)


def knob_quantizers(model):
  """Independent enumeration: every object reachable from a layer's attributes
  (one level into lists and RNN cells) that has a `qnoise_factor` attribute."""
  found = []
  seen = set()

  def visit(obj, where):
    if obj is None or id(obj) in seen:
      return
    if hasattr(obj, "qnoise_factor") and callable(obj) and hasattr(obj, "update_qnoise_factor"):
      seen.add(id(obj))
      found.append((where, obj))

  for layer in model.layers:
    for holder, tag in ((layer, ""), (getattr(layer, "cell", None), "rnn_cell.")):
      if holder is None:
        continue
      for k, v in list(vars(holder).items()):
        if k.startswith("_") and k not in ("_quantizers",):
          continue
        if isinstance(v, (list, tuple)):
          for e in v:
            visit(e, tag + "layer." + k.strip("_"))
        else:
          visit(v, tag + "layer." + k.strip("_"))
  return found


def run_b(case, ctx):
  from vf import qenv
  from qkeras.callbacks import QNoiseScheduler
  fam = case["family"]
  base = {"part": "B", "family": fam}
  ok, model = ctx.call(base, build_model, fam)
  if not ok:
    return
  ok, cb = ctx.call(base, lambda: QNoiseScheduler(
      start=case["start"], finish=case["finish"], freq_type=case["freq_type"],
      update_freq=case["update_freq"], initial_step_or_epoch=case["initial"],
      exponent=case["exponent"], use_ste=case["use_ste"]))
  if not ok:
    return
  if case.get("freeze"):
    # a frozen layer (trainable = False, e.g. a pre-trained backbone) still computes with its quantizers:
    # "every quantizer of the model that has the knob" includes them
    for l in model.layers:
      if l.weights:
        l.trainable = False
        ctx.count("B.histories_with_frozen_layer")
        break
  cb.set_model(model)
  everything = knob_quantizers(model)
  ctx.count("B.histories")
  ctx.nontrivial("B", fam, case["start"], case["finish"], case["exponent"], case["update_freq"],
                 case["freq_type"], case["initial"], case["epochs"], case["steps"])
  ok, _ = ctx.call(dict(base, hook="on_train_begin"), cb.on_train_begin)
  if not ok:
    return
  mine = {id(q) for q in (cb.quantizers or [])}
  missed = sorted({w for (w, q) in everything if id(q) not in mine})
  for w in missed:
    ctx.violation({"part": "B", "kind": "quantizer_with_knob_not_driven", "where": w},
                  "scheduler drives %d of %d knob-bearing quantizers; misses %s" % (len(mine), len(everything), w), None)
  trace = []
  last = None
  t_step = case["initial"]
  t_epoch = case["initial"]

  def read():
    return [float(np.asarray(qenv.as_np(q.qnoise_factor))) for q in cb.quantizers]

  def after(hook, t, is_update_clock):
    nonlocal last
    vals = read()
    ctx.count("B.hook_events")
    trace.append((hook, t, vals[:1]))
    if vals and (max(vals) - min(vals) > 1e-7):
      ctx.violation(dict(base, kind="knobs_disagree"), "after %s t=%d: %r" % (hook, t, vals), {"trace": trace[-6:]})
      return False
    v = vals[0] if vals else None
    if v is None:
      return True
    if not (0.0 - 1e-7 <= v <= 1.0 + 1e-7):
      ctx.violation(dict(base, kind="factor_outside_unit_interval"), "after %s t=%d: %r" % (hook, t, v), {"trace": trace[-6:]})
    if last is not None and v < last - 1e-7:
      ctx.violation(dict(base, kind="factor_decreased"), "after %s t=%d: %r -> %r" % (hook, t, last, v),
                    {"trace": trace[-8:], "schedule": {k: case[k] for k in ("start", "finish", "exponent", "update_freq", "freq_type", "initial")}})
    last = v
    if is_update_clock and t % case["update_freq"] == 0:
      ctx.count("B.update_steps_checked")
      ctx.evals(1)
      if t < case["start"] and abs(v) > 1e-7:
        ctx.violation(dict(base, kind="nonzero_before_start"), "t=%d < start=%d: factor %r" % (t, case["start"], v),
                      {"trace": trace[-6:]})
      if t >= case["finish"] and abs(v - 1.0) > 1e-7:
        ctx.violation(dict(base, kind="not_one_from_finish"), "t=%d >= finish=%d: factor %r" % (t, case["finish"], v),
                      {"trace": trace[-6:]})
    return True

  for e in range(case["epochs"]):
    ok, _ = ctx.call(dict(base, hook="on_epoch_begin"), cb.on_epoch_begin, e)
    if not ok or not after("epoch_begin", t_epoch, case["freq_type"] == "epoch"):
      return
    if case["freq_type"] == "epoch":
      t_epoch += 1
    for b in range(case["steps"]):
      ok, _ = ctx.call(dict(base, hook="on_train_batch_begin"), cb.on_train_batch_begin, b)
      if not ok or not after("batch_begin", t_step, case["freq_type"] == "step"):
        return
      if case["freq_type"] == "step":
        t_step += 1
    ok, _ = ctx.call(dict(base, hook="on_epoch_end"), cb.on_epoch_end, e)
    if not ok:
      return
  # training continued with the same callback (a second fit): the counter goes on, nothing may fall back
  if case["idx"] % 3 == 0:
    ok, _ = ctx.call(dict(base, hook="on_train_begin_again"), cb.on_train_begin)
    if ok:
      ctx.count("B.second_fit_histories")
      vals = read()
      if vals and last is not None and min(vals) < last - 1e-7:
        ctx.violation(dict(base, kind="factor_decreased", where="second_fit"),
                      "second on_train_begin with the same scheduler: factor %r -> %r" % (last, min(vals)), {"trace": trace[-4:]})
      for b in range(2):
        ok, _ = ctx.call(dict(base, hook="on_train_batch_begin"), cb.on_train_batch_begin, b)
        if not ok:
          break
        vals = read()
        if vals and last is not None and min(vals) < last - 1e-7:
          ctx.violation(dict(base, kind="factor_decreased", where="second_fit"),
                        "second fit, batch %d: factor %r -> %r" % (b, last, min(vals)), {"trace": trace[-4:]})
          break
        if vals:
          last = max(last if last is not None else 0.0, min(vals))
  # the factor the model actually uses == the logged one (forward pass at the end)
  ctx.sample({"part": "B", "schedule": {k: case[k] for k in ("family", "start", "finish", "exponent", "update_freq", "freq_type", "initial", "epochs", "steps")},
              "trace_head": trace[:8], "n_knob_quantizers": len(everything), "n_driven": len(mine)})


def run_f(case, ctx):
  """A real training run: Keras itself calls the scheduler's hooks; a spy callback placed after it logs the factors."""
  import tensorflow as tf
  from vf import qenv
  from qkeras.callbacks import QNoiseScheduler
  fam = case["family"]
  base = {"part": "F", "family": fam}
  model = build_model(fam)
  cb = QNoiseScheduler(start=case["start"], finish=case["finish"], freq_type=case["freq_type"],
                       update_freq=case["update_freq"], initial_step_or_epoch=case["initial"],
                       exponent=case["exponent"], use_ste=case["use_ste"])
  log = []

  class Spy(tf.keras.callbacks.Callback):
    def __init__(self):
      super().__init__()
      self.epoch = -1
      self.step = -1

    def on_epoch_begin(self, epoch, logs=None):
      self.epoch += 1
      log.append(("epoch_begin", self.epoch, [float(np.asarray(qenv.as_np(q.qnoise_factor))) for q in (cb.quantizers or [])]))

    def on_train_batch_begin(self, batch, logs=None):
      self.step += 1
      log.append(("batch_begin", self.step, [float(np.asarray(qenv.as_np(q.qnoise_factor))) for q in (cb.quantizers or [])]))

  rng = np.random.default_rng(case["seed"] * 17 + case["idx"])
  n = case["steps"] * 2
  x = rng.normal(0, 1, size=(n,) + tuple(model.input_shape[1:])).astype(np.float32)
  y = rng.normal(0, 1, size=(n,) + tuple(model.output_shape[1:])).astype(np.float32)
  model.compile(optimizer=tf.keras.optimizers.SGD(1e-3), loss="mse")
  ok, _ = ctx.call(dict(base, op="fit"), lambda: model.fit(x, y, batch_size=2, epochs=case["epochs"], verbose=0, callbacks=[cb, Spy()]))
  if not ok:
    return
  ctx.count("F.fits")
  ctx.nontrivial("F", fam, case["start"], case["finish"], case["update_freq"], case["freq_type"], case["initial"], case["epochs"], case["steps"])
  last = None
  for hook, t0, vals in log:
    ctx.count("F.hook_events")
    if not vals:
      continue
    if max(vals) - min(vals) > 1e-7:
      ctx.violation(dict(base, kind="knobs_disagree"), "%s %d: %r" % (hook, t0, vals), None)
      return
    v = vals[0]
    if last is not None and v < last - 1e-7:
      ctx.violation(dict(base, kind="factor_decreased"), "%s %d: %r -> %r" % (hook, t0, last, v), {"log": log[:12]})
    last = v
    clock = "batch_begin" if case["freq_type"] == "step" else "epoch_begin"
    if hook == clock:
      t = case["initial"] + t0
      if t % case["update_freq"] == 0:
        ctx.count("F.update_steps_checked")
        ctx.evals(1)
        if t < case["start"] and abs(v) > 1e-7:
          ctx.violation(dict(base, kind="nonzero_before_start"), "t=%d < start=%d: %r" % (t, case["start"], v), {"log": log[:12]})
        if t >= case["finish"] and abs(v - 1.0) > 1e-7:
          ctx.violation(dict(base, kind="not_one_from_finish"), "t=%d >= finish=%d: %r" % (t, case["finish"], v), {"log": log[:12]})
  ctx.sample({"part": "F", "schedule": {k: case[k] for k in ("family", "start", "finish", "update_freq", "freq_type", "initial", "epochs", "steps")},
              "log_head": log[:6]})


def run_case(case, ctx):
  if case["part"] == "A":
    run_a(case, ctx)
  elif case["part"] == "F":
    run_f(case, ctx)
  else:
    run_b(case, ctx)
