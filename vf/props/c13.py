"""C13 - saving, cloning or reloading a quantized model preserves predictions and quantizers."""
import json
import os
import random
import shutil
import tempfile

import numpy as np

from vf.gen import models as gm

PID = "C13"
RULE = ("one case = a generated quantized model (2..5 layers over every layer class of the library's "
        "custom-object table that can be called under this TF: QDense, QConv1D/2D (incl. masked), QDepthwiseConv2D, "
        "QSeparableConv1D/2D, QSimpleRNN/QLSTM/QGRU, QBidirectional, QActivation, QAdaptiveActivation, "
        "QBatchNormalization, QConv2DBatchnorm, QDepthwiseConv2DBatchnorm, QAveragePooling2D, "
        "QGlobalAveragePooling2D, QScaleShift; quantizer objects with non-default options per tensor role; random "
        "weights) x three routes: JSON architecture + set_weights, utils.clone_model, HDF5 save + load_qmodel without "
        "user custom objects; predictions on 3 batches must be bit-identical and every layer must report the same "
        "quantizers (class + get_config). Non-trivial = distinct generated models (hashed spec).")
ANCHORS = [("qkeras/utils.py", 1029, 1069), ("qkeras/utils.py", 1072, 1134), ("qkeras/qlayers.py", 182, 201),
           ("qkeras/qlayers.py", 671, 709), ("qkeras/qconvolutional.py", 220, 232), ("qkeras/qconvolutional.py", 419, 440),
           ("qkeras/qconvolutional.py", 789, 802), ("qkeras/qconvolutional.py", 951, 964),
           ("qkeras/qconvolutional.py", 1132, 1156), ("qkeras/qlayers.py", 89, 142), ("qkeras/qlayers.py", 512, 554)]
ASSUMPTIONS = [
    "predictions are compared in one process at learning phase 0 (same kernels): bit-identical is legitimate",
    "QConv2DTranspose-family layers cannot be called under TF 2.21 (array_ops.stack removed): config round trip only",
    "quantized_po2 as a pooling average quantizer cannot be traced in a functional model (float64 literal): not generated",
]
TIMEOUT = {"quick": 1500, "thorough": 6000}
ROUTES = ["json", "clone", "h5"]


def thresholds(tier):
  return {"models": 16, "routes_checked": 48, "layers_compared": 100, "predictions_compared": 150,
          "distinct_nontrivial": 16, "layer_classes_seen": 0}


def cases(tier, seed):
  n = 48 if tier == "quick" else 1000
  out = []
  for i in range(n):
    rnd = random.Random(seed * 104729 + i)
    out.append({"spec": gm.q_model_spec(rnd), "idx": i, "seed": seed})
  # a few fixed configuration-only instances for layers that cannot be called
  out.append({"config_only": "QConv2DTranspose", "idx": n, "seed": seed})
  return out


def qdesc(q):
  if q is None:
    return None
  if not hasattr(q, "get_config"):
    return ("fn", getattr(q, "__name__", str(q)))
  cfg = q.get_config()
  try:
    text = str(q)        # the form in which print_qstats / qtools / users see "the quantizer of this layer"
  except Exception as e:  # pylint: disable=broad-except
    text = "str() raises " + type(e).__name__
  return (type(q).__name__, json.dumps({k: (np.asarray(v).tolist() if hasattr(v, "shape") else str(v)) for k, v in sorted(cfg.items())}), text)


def layer_quantizers(layer):
  out = []
  if hasattr(layer, "get_quantizers"):
    try:
      out += [("q%d" % i, qdesc(q)) for i, q in enumerate(layer.get_quantizers())]
    except Exception as e:  # pylint: disable=broad-except
      out.append(("get_quantizers_raises", type(e).__name__))
  for attr in ("activation", "quantizer", "recurrent_activation"):
    v = getattr(layer, attr, None)
    if v is not None and hasattr(v, "get_config") and hasattr(v, "__call__") and not isinstance(v, type):
      try:
        out.append((attr, qdesc(v)))
      except Exception:  # pylint: disable=broad-except
        pass
  for sub in ("forward_layer", "backward_layer", "cell"):
    s = getattr(layer, sub, None)
    if s is not None and s is not layer:
      out += [(sub + "." + k, v) for k, v in layer_quantizers(s)]
  return out


def run_case(case, ctx):
  import tensorflow as tf
  import tensorflow.keras.backend as K
  import qkeras
  from qkeras import utils as qutils
  tf.keras.backend.clear_session()
  K.set_learning_phase(0)
  if case.get("config_only"):
    from qkeras import QConv2DTranspose
    l = QConv2DTranspose(2, 2, kernel_quantizer="quantized_bits(4,0,1)", bias_quantizer="quantized_po2(4)", name="t")
    ok, l2 = ctx.call({"route": "config_only", "layer": "QConv2DTranspose"}, lambda: QConv2DTranspose.from_config(l.get_config()))
    if ok and layer_quantizers(l) != layer_quantizers(l2):
      ctx.violation({"kind": "quantizers_differ", "route": "config_only", "layer": "QConv2DTranspose"}, "config round trip", None)
    ctx.observe("QConv2DTranspose.call raises under TF 2.21 (array_ops.stack): exercised for config round trip only")
    return
  spec = case["spec"]
  classes = sorted({l["t"] for l in spec["layers"]})
  try:
    model = gm.build_q(spec)
  except Exception as e:  # pylint: disable=broad-except
    ctx.skip("model_not_buildable:%s" % type(e).__name__)
    ctx.observe("unbuildable_model", {"layers": [l["t"] for l in spec["layers"]], "err": repr(e)[:300]})
    return
  rng = np.random.default_rng(case["seed"] * 31 + case["idx"])
  ws = []
  for w in model.get_weights():
    if w.dtype.kind == "f":
      v = rng.normal(0, 0.7, size=w.shape).astype(w.dtype)
      ws.append(np.abs(v) + 0.1 if w.ndim == 1 and False else v)
    else:
      ws.append(w)
  model.set_weights(ws)
  # moving variances must stay positive
  for l in model.layers:
    for attr in ("moving_variance",):
      for holder in (l, getattr(l, "batchnorm", None)):
        v = getattr(holder, attr, None) if holder is not None else None
        if v is not None:
          v.assign(np.abs(v.numpy()) + 0.05)
  xs = [rng.normal(0, 1.0, size=(2,) + tuple(spec["input"])).astype(np.float32) for _ in range(3)]
  xs[2] = xs[2] * 8.0      # large inputs: saturation levels of the activations become visible
  base = {"op": "reference_prediction"}
  try:
    ref = [np.asarray(model(x, training=False)) for x in xs]
    refp = np.asarray(model.predict(xs[0], verbose=0))
  except Exception as e:  # pylint: disable=broad-except
    ctx.skip("model_not_callable:%s" % type(e).__name__)
    ctx.observe("uncallable_model", {"layers": [l["t"] for l in spec["layers"]], "err": repr(e)[:300]})
    return
  ctx.count("models")
  for c in classes:
    ctx.seen("layer_classes", c)
  ctx.nontrivial(json.dumps(spec, sort_keys=True))
  ref_q = [(l.name, type(l).__name__, layer_quantizers(l)) for l in model.layers]
  tmpd = tempfile.mkdtemp(prefix="vf-c13-", dir=os.environ.get("VERIF_WORKDIR") or "/var/tmp")
  try:
    for route in ROUTES:
      sig = {"route": route}

      def rebuild():
        if route == "json":
          m2 = qutils.quantized_model_from_json(model.to_json())
          m2.set_weights(model.get_weights())
          return m2
        if route == "clone":
          return qutils.clone_model(model)
        path = os.path.join(tmpd, "m.h5")
        model.save(path)
        return qutils.load_qmodel(path, compile=False)
      try:
        m2 = rebuild()
      except Exception as e:  # pylint: disable=broad-except
        import re
        import traceback
        where = ctx.repo_frame(e.__traceback__) or "keras"
        m = re.search(r"class '(\w+)'", str(e)) or re.search(r"Unknown (?:layer|object|quantizer|activation function|constraint|initializer): '?(\w+)", str(e))
        ctx.violation(dict(sig, kind="raises", exc=type(e).__name__, failing=m.group(1) if m else "unknown"),
                      "%s: %s" % (type(e).__name__, str(e)[:300]),
                      {"layers": [l["t"] for l in spec["layers"]], "traceback": traceback.format_exc()[-1500:]})
        continue
      ctx.count("routes_checked")
      got_q = [(l.name, type(l).__name__, layer_quantizers(l)) for l in m2.layers]
      for (n1, c1, q1), (n2, c2, q2) in zip(ref_q, got_q):
        ctx.count("layers_compared")
        if c1 != c2:
          ctx.violation(dict(sig, kind="layer_class_changed", layer=c1), "%s: %s -> %s" % (n1, c1, c2), None)
        elif q1 != q2:
          role = next((a[0] for a, b in zip(q1, q2) if a != b), "count")
          ctx.violation(dict(sig, kind="quantizers_differ", layer=c1, role=role.split(".")[-1]),
                        "%s (%s): %s vs %s" % (n1, c1, [x for x in q1 if x not in q2][:2], [x for x in q2 if x not in q1][:2]), None)
      if len(ref_q) != len(got_q):
        ctx.violation(dict(sig, kind="layer_count_changed"), "%d -> %d" % (len(ref_q), len(got_q)), None)
        continue
      try:
        got = [np.asarray(m2(x, training=False)) for x in xs]
        gotp = np.asarray(m2.predict(xs[0], verbose=0))
      except Exception as e:  # pylint: disable=broad-except
        where = ctx.repo_frame(e.__traceback__) or "keras"
        ctx.violation(dict(sig, kind="rebuilt_model_raises", exc=type(e).__name__, where=where), str(e)[:300], None)
        continue
      for a, b in zip(ref + [refp], got + [gotp]):
        ctx.count("predictions_compared")
        ctx.evals(int(a.size))
        if a.shape != b.shape or not np.array_equal(a, b, equal_nan=True):
          d = float(np.nanmax(np.abs(a.astype(np.float64) - b.astype(np.float64)))) if a.shape == b.shape else -1.0
          # attribute: first layer whose output differs
          culprit = "unknown"
          try:
            for l1, l2 in zip(model.layers[1:], m2.layers[1:]):
              s1 = tf.keras.Model(model.input, l1.output)(xs[0], training=False)
              s2 = tf.keras.Model(m2.input, l2.output)(xs[0], training=False)
              if not np.array_equal(np.asarray(s1), np.asarray(s2), equal_nan=True):
                culprit = type(l1).__name__
                break
          except Exception:  # pylint: disable=broad-except
            pass
          ctx.violation(dict(sig, kind="predictions_differ", layer=culprit),
                        "max |diff| = %g after %s round trip (first differing layer: %s)" % (d, route, culprit),
                        {"layers": [(l["t"], {k: (v if not isinstance(v, dict) else v) for k, v in l["kw"].items()}) for l in spec["layers"]]})
          break
  finally:
    shutil.rmtree(tmpd, ignore_errors=True)
  ctx.sample({"layers": [(l["t"], sorted(l["kw"])) for l in spec["layers"]], "input": spec["input"]})
