"""C20 - AutoQKeras trials respect the search limits; forgiving-factor scoring.

part "hp":    one case = one shard of the hyper-parameter space of one scenario
              (reference model x limit dictionary x quantization config x tune_filters x
              layer_indexes); `AutoQKHyperModel(...).quantize_model(stub)` is driven with the
              recording / replaying stub of vf/monitors/hpstub.py for every leaf of the space
              (small configs) or for a pairwise-covering + random sample (library default config).
part "delta": contracts of `ForgivingFactor.delta` over a grid of (delta_p, delta_n, rate, sizes).

Everything above the line "TF side" is pure Python (no tensorflow import): model specifications,
the independent resolution of the limits (`plan`) and the case generator.
"""
import copy
import json
import math
import random
import re
import zlib

from vf.monitors import hpstub

PID = "C20"
RULE = ("hp: one case = one shard of one scenario = (reference model of 3-7 layers out of {Dense, Conv1D, "
        "Conv2D, DepthwiseConv2D, SeparableConv2D, SimpleRNN, LSTM, Activation, BatchNormalization, Add, "
        "Flatten, pooling}, limit dictionary {per class | regex pattern | list-valued allow-list | `default` "
        "padding | none}, quantization config {2-3 quantizers per role drawn per seed | library default}, "
        "tune_filters, tune_filters_exceptions, layer_indexes). Small configs: every leaf of the decision tree "
        "is executed (mixed-radix over the recorded decision points, shape verified on every replay, DFS "
        "fall-back); library default config: pairwise covering array + random assignments. Per leaf: offered "
        "values and the built trial model are compared with the independently resolved plan. Non-trivial = a "
        "distinct (scenario, complete assignment) leaf of a space with at least one real choice, or a distinct "
        "delta grid point. delta: grid over delta_p x delta_n x rate x reference size x trial sizes "
        "(equal, +-1, /rate, *rate, random), scalar and array form.")
ANCHORS = [("qkeras/autoqkeras/autoqkeras_internal.py", 199, 325),
           ("qkeras/autoqkeras/autoqkeras_internal.py", 327, 561),
           ("qkeras/autoqkeras/forgiving_metrics/forgiving_factor.py", 40, 47),
           ("qkeras/autoqkeras/forgiving_metrics/forgiving_bits.py", 40, 175),
           ("qkeras/autoqkeras/autoqkeras_internal.py", 693, 724)]
ASSUMPTIONS = [
    "limit resolution (independent of the code under test): keys of `limit` other than registered class names and "
    "'default' are regular expressions tried with re.match in dictionary order against the layer name, first match "
    "wins and groups the layer; otherwise the entry of the layer's class; otherwise the layer is not quantized. "
    "Entry layout as documented in AutoQKHyperModel.__init__: [weight, bias, activation], RNN [weight, bias, "
    "recurrent, activation], Activation [activation]; missing trailing values come from `default` (8 if absent). "
    "Generated layer names are lower case so no layer name matches a class-name key",
    "bits(k) is the value the quantization configuration declares for k; a quantizer object in the trial model is "
    "identified with a configuration string when class and get_config() agree with qkeras.get_quantizer(string), "
    "before or after the `_set_trainable_parameter()` adjustment every weight-bearing Q layer applies (trusted base: "
    "the string parser, subject of C10)",
    "recurrent / pointwise kernels: candidates are quantization_config['recurrent_kernel'/'pointwise_kernel'] when "
    "present and quantization_config['kernel'] (weaker reading; drawing from 'kernel' is only observed); the "
    "recurrent limit is the documented third entry of an RNN limit",
    "domain: limits leave at least one admissible quantizer per role; RNN limit entries have 4 values; pattern "
    "entries are complete; Bidirectional, GRU, Conv2DTranspose and Reshape are not generated (API drift in the "
    "pinned runtime / not executable)",
    "size model: output_bits differs from ref_bits in half of the scenarios; unquantized layers are held to ref_bits, "
    "softmax / sigmoid outputs of Q layers and Activation layers may be sized at either width; per-layer "
    "entries of compute_model_size are recomputed for Dense/Conv1D/Conv2D/DepthwiseConv2D/Activation and their Q "
    "versions from the layer's own variables and quantizer objects",
    "delta domain: delta_p, delta_n > 0, rate > 1, sizes >= 1; the documented meaning of the parameters (delta_p % "
    "per `rate`-fold decrease, delta_n % per `rate`-fold increase) is checked to 1e-6 relative",
]
TIMEOUT = {"quick": 600, "thorough": 2400}
WORKERS = {"quick": 16, "thorough": 16}
EXHAUSTIVE = {"quick": False, "thorough": False}   # per-scenario exhaustiveness is reported in observed_sets

RNN = ("SimpleRNN", "LSTM")
CONVLIKE = ("Dense", "Conv1D", "Conv2D", "DepthwiseConv2D", "SeparableConv2D")
WEIGHT = CONVLIKE + RNN
CLASS_KEYS = ("Dense", "Conv1D", "Conv2D", "DepthwiseConv2D", "SimpleRNN", "LSTM", "GRU", "Bidirectional",
              "Conv2DTranspose", "SeparableConv1D", "SeparableConv2D", "Activation", "BatchNormalization",
              "Flatten", "Add", "GlobalAveragePooling1D", "GlobalAveragePooling2D", "MaxPooling2D", "ReLU")
TUNABLE = ("Dense", "Conv1D", "Conv2D", "SeparableConv2D")
FILTER_RANGE = [0.5, 0.75, 1.0, 1.5, 2.0]
LEAF_CAP = {"quick": 48, "thorough": 256}


def thresholds(tier):
  if tier == "quick":
    return {"hp.scenarios": 20, "hp.leaves": 190, "hp.leaves_built": 180, "hp.scenarios_exhaustive": 12,
            "hp.scenarios_sampled": 2, "hp.offered_checked": 3000, "hp.membership_checked": 1200,
            "hp.honour_checked": 1200, "hp.excluded_checked": 800, "hp.group_checked": 55,
            "hp.architecture_checked": 180, "hp.scaled_units_checked": 5, "hp.size_layers_checked": 800,
            "hp.build_checked": 8, "hp.score_checked": 8, "delta.points": 1500, "delta.monotone_pairs": 1300,
            "delta.model_zero_checked": 9, "stub.selftest": 1, "distinct_nontrivial": 1700}
  return {"hp.scenarios": 80, "hp.leaves": 1700, "hp.leaves_built": 1600, "hp.scenarios_exhaustive": 45,
          "hp.scenarios_sampled": 8, "hp.offered_checked": 40000, "hp.membership_checked": 13000,
          "hp.honour_checked": 12000, "hp.excluded_checked": 7000, "hp.group_checked": 650,
          "hp.architecture_checked": 1600, "hp.scaled_units_checked": 20, "hp.size_layers_checked": 7500,
          "hp.build_checked": 35, "hp.score_checked": 35, "delta.points": 3500, "delta.monotone_pairs": 3300,
          "delta.model_zero_checked": 35, "stub.selftest": 1, "distinct_nontrivial": 5000}


# ----------------------------------------------------------------------------- model specifications
def L(cls, name, **kw):
  d = {"cls": cls, "name": name}
  d.update(kw)
  return d


MODELS = {
    # float non-linearities that model_quantize does not rewrite (elu, softplus): their output tensors stay at the
    # reference width in the size model
    "mlp_float_act": {"input": [6], "layers": [
        L("Dense", "d0", units=4, activation="elu"), L("Dense", "d1", units=3, activation="softplus"),
        L("Dense", "d2", units=2), L("Activation", "sm", activation="softmax")]},
    "mlp_inline": {"input": [6], "layers": [
        L("Dense", "d0", units=4, activation="relu"), L("Dense", "d1", units=3),
        L("Activation", "a1", activation="relu"), L("Dense", "d2", units=2),
        L("Activation", "sm", activation="softmax")]},
    "mlp_branch": {"input": [5], "layers": [
        L("Dense", "b0_d", units=4, activation="tanh", inputs=["inp"]),
        L("Dense", "b0_e", units=4, use_bias=False, inputs=["inp"]),
        L("Add", "add", inputs=["b0_d", "b0_e"]), L("Activation", "act", activation="relu"),
        L("Dense", "out", units=3, activation="softmax")]},
    "conv": {"input": [6, 6, 2], "layers": [
        L("Conv2D", "c0", filters=3, kernel_size=2, activation="relu"),
        L("DepthwiseConv2D", "dw", kernel_size=2), L("Activation", "a0", activation="relu"),
        L("Conv2D", "c1", filters=2, kernel_size=2, use_bias=False), L("Flatten", "fl"),
        L("Dense", "out", units=2), L("Activation", "sm", activation="softmax")]},
    "conv1d": {"input": [8, 2], "layers": [
        L("Conv1D", "k0", filters=3, kernel_size=3, activation="sigmoid"), L("Conv1D", "k1", filters=2, kernel_size=2),
        L("Activation", "ta", activation="tanh"), L("GlobalAveragePooling1D", "gap"),
        L("Dense", "out", units=2)]},
    "sep": {"input": [6, 6, 2], "layers": [
        L("SeparableConv2D", "s0", filters=3, kernel_size=2, activation="relu"),
        L("Conv2D", "c", filters=2, kernel_size=2), L("GlobalAveragePooling2D", "gap"),
        L("Dense", "out", units=2)]},
    "rnn2": {"input": [3, 2], "layers": [
        L("SimpleRNN", "r0", units=3, return_sequences=True), L("SimpleRNN", "r1", units=2),
        L("Dense", "out", units=2)]},
    "lstm": {"input": [3, 2], "layers": [
        L("LSTM", "l0", units=3), L("Dense", "d", units=2), L("Activation", "sg", activation="sigmoid")]},
    "group": {"input": [6], "layers": [
        L("Dense", "b0_d", units=4), L("Activation", "b0_lin", activation="linear"),
        L("Dense", "b0_e", units=3), L("Activation", "b0_act", activation="relu"),
        L("Dense", "b1_d", units=3, activation="relu"), L("Activation", "b1_act", activation="relu"),
        L("Dense", "other", units=2)]},
    "bn": {"input": [6, 6, 2], "layers": [
        L("Conv2D", "c0", filters=3, kernel_size=3), L("BatchNormalization", "bn0"),
        L("Activation", "a0", activation="relu"), L("MaxPooling2D", "mp", pool_size=2), L("Flatten", "fl"),
        L("Dense", "out", units=2, activation="softmax")]},
    "mlp_tail": {"input": [5], "layers": [
        L("Dense", "d0", units=4, activation="relu"), L("Dense", "d1", units=4),
        L("Activation", "a1", activation="relu"), L("Dense", "tail", units=3, activation="softmax")]},
    "conv_tail": {"input": [6, 6, 2], "layers": [
        L("Conv2D", "c0", filters=2, kernel_size=2, activation="relu"), L("Conv2D", "tail", filters=3, kernel_size=2),
        L("Activation", "a", activation="relu"), L("GlobalAveragePooling2D", "gap")]},
    "rnn_dense": {"input": [3, 2], "layers": [
        L("Dense", "d0", units=3, activation="relu"), L("SimpleRNN", "r0", units=2, activation="relu"),
        L("Dense", "out", units=2)]},
}

POOL = {
    "kernel": [("binary", 1), ("ternary", 2), ("quantized_bits(2,1,1,alpha=1.0)", 2), ("quantized_bits(3,0,1)", 3),
               ("quantized_bits(4,0,1)", 4), ("quantized_po2(4,1)", 4), ("quantized_bits(6,0,1)", 6),
               ("quantized_bits(8,0,1)", 8)],
    "bias": [("quantized_bits(3,0,1)", 3), ("quantized_bits(4,0,1)", 4), ("quantized_po2(4,8)", 4),
             ("quantized_bits(6,2,1)", 6), ("quantized_bits(8,3,1)", 8)],
    "activation": [("binary", 1), ("ternary", 2), ("quantized_relu(2,1)", 2), ("quantized_relu(3,1)", 3),
                   ("quantized_relu(5,2)", 5), ("quantized_relu_po2(4,4)", 4), ("quantized_relu(6,2)", 6),
                   ("quantized_relu(8,4)", 8)],
    "linear": [("ternary", 2), ("quantized_bits(3,1)", 3), ("quantized_bits(5,1)", 5), ("quantized_bits(7,2)", 7),
               ("quantized_po2(6,4)", 6)],
    "recurrent_kernel": [("quantized_bits(2,0,1,alpha=1.0)", 2), ("quantized_bits(3,0,1,alpha=1.0)", 3),
                         ("quantized_bits(5,0,1,alpha=1.0)", 5), ("quantized_bits(7,0,1,alpha=1.0)", 7)],
    "pointwise_kernel": [("quantized_bits(2,0,1,alpha=1.0)", 2), ("quantized_bits(3,0,1,alpha=1.0)", 3),
                         ("quantized_bits(5,0,1,alpha=1.0)", 5)],
    "recurrent_activation": [("quantized_sigmoid(3)", 3), ("quantized_sigmoid(5)", 5), ("quantized_sigmoid(7)", 7)],
}

LIBRARY_DEFAULT = {     # literal copy of the documented default (the oracle never imports the library's dictionary)
    "kernel": {"binary": 1, "stochastic_binary": 1, "ternary": 2, "stochastic_ternary": 2,
               "quantized_bits(2,1,1,alpha=1.0)": 2, "quantized_bits(4,0,1)": 4, "quantized_bits(8,0,1)": 8,
               "quantized_po2(4,1)": 4},
    "bias": {"quantized_bits(4,0,1)": 4, "quantized_bits(8,3,1)": 8, "quantized_po2(4,8)": 4},
    "activation": {"binary": 1, "binary(alpha='auto_po2')": 1, "ternary": 2, "quantized_relu(3,1)": 3,
                   "quantized_relu(4,2)": 4, "quantized_relu(8,2)": 8, "quantized_relu(8,4)": 8,
                   "quantized_relu(16,8)": 16, "quantized_relu_po2(4,4)": 4},
    "linear": {"binary": 1, "ternary": 2, "quantized_bits(4,1)": 4, "quantized_bits(8,2)": 8,
               "quantized_bits(16,10)": 16, "quantized_po2(6,4)": 6},
}


def small_cfg(rnd, n=2):
  cfg = {}
  for role, pool in POOL.items():
    k = n if rnd.random() < 0.75 else min(n + 1, len(pool))
    picks = rnd.sample(pool, k)
    picks.sort(key=lambda kv: (kv[1], kv[0]))
    cfg[role] = {s: b for s, b in picks}
  return cfg


def cfg_of(scn):
  return LIBRARY_DEFAULT if scn["cfg"] == "library_default" else scn["cfg"]


# ----------------------------------------------------------------------------- independent plan
def roles_of(ls):
  """Tensor roles the hyper-model decides for a layer of the reference model."""
  cls = ls["cls"]
  act = ls.get("activation")
  if cls in RNN and act is None:
    act = "tanh"
  roles = []
  if cls in WEIGHT:
    roles.append("kernel")
    if cls == "SeparableConv2D":
      roles.append("pointwise")
    if cls in RNN:
      roles.append("recurrent")
    if ls.get("use_bias", True):
      roles.append("bias")
    if act not in (None, "linear", "softmax"):
      roles.append("activation")
    if cls == "LSTM":
      roles.append("recurrent_activation")
  elif cls == "Activation":
    if act == "linear":
      roles.append("linear")
    elif act != "softmax":
      roles.append("activation")
  return roles


def resolve_entry(limit, lname, lcls):
  for key in limit:
    if key == "default" or key in CLASS_KEYS:
      continue
    if re.match(key, lname):
      return key, True
  if lcls in limit:
    return lcls, False
  return None, False


def limit_value(limit, key, grouped, lcls, role):
  entry = list(limit[key])
  n = 4 if lcls in RNN else (1 if (lcls == "Activation" and not grouped) else 3)
  if not grouped and len(entry) < n:
    default = limit.get("default")
    if default is None:
      default = 8
    dl = list(default) if isinstance(default, list) else None
    while len(entry) < n:
      i = len(entry)
      if dl is None:
        entry.append(default)
      else:     # positions of the default list: weight, bias, (recurrent,) activation
        entry.append(dl[-1] if i == n - 1 else dl[min(i, len(dl) - 1)])
  if role in ("kernel", "pointwise"):
    return entry[0]
  if role == "bias":
    return entry[1]
  if role == "recurrent":
    return entry[2]
  return entry[-1]


CFG_KEYS = {"kernel": ("kernel",), "bias": ("bias",), "activation": ("activation",), "linear": ("linear",),
            "recurrent_activation": ("recurrent_activation",), "recurrent": ("recurrent_kernel", "kernel"),
            "pointwise": ("pointwise_kernel", "kernel")}
SUFFIX = {"kernel": "kernel", "bias": "bias", "activation": "activation", "linear": "activation",
          "recurrent": "recurrent_kernel", "pointwise": "pointwise_kernel",
          "recurrent_activation": "recurrent_activation"}
GROUP_FIELDS = {"kernel": ["kernel"], "bias": ["bias"], "activation": ["activation"], "linear": ["linear"],
                "recurrent": ["recurrent_kernel", "kernel"], "pointwise": ["pointwise_kernel", "kernel"],
                "recurrent_activation": ["recurrent_activation"]}


def admissible(cfg, role, lim):
  """(weak set, strict set, bits by string) of configuration strings admissible for a role under a limit."""
  dicts = [cfg[k] for k in CFG_KEYS[role] if k in cfg]
  bits = {}
  for d in reversed(dicts):
    bits.update(d)
  strict_src = dicts[0] if dicts else {}
  if isinstance(lim, list):
    weak = [k for k in lim if k in bits]
    strict = [k for k in lim if k in strict_src]
  else:
    weak = [k for k, b in bits.items() if b <= lim]
    strict = [k for k, b in strict_src.items() if b <= lim]
  return weak, strict, bits


def plan(scn):
  """Per layer of the reference model (index 0 = InputLayer): what the statement allows."""
  limit = scn["limit"] or {}
  cfg = cfg_of(scn)
  out = [{"name": "inp", "cls": "InputLayer", "quantize": False, "roles": {}, "selected": False,
          "marked": False, "tunable": False, "key": None, "grouped": False}]
  exc = scn.get("exc")
  for i, ls in enumerate(scn["model"]["layers"]):
    idx = i + 1
    selected = scn["layer_indexes"] is None or idx in scn["layer_indexes"]
    key, grouped = resolve_entry(limit, ls["name"], ls["cls"])
    roles = {}
    if selected and key is not None:
      for role in roles_of(ls):
        if not any(k in cfg for k in CFG_KEYS[role]):
          continue          # the configuration names no quantizers for this role: nothing to choose from
        lim = limit_value(limit, key, grouped, ls["cls"], role)
        weak, strict, bits = admissible(cfg, role, lim)
        if grouped:
          names = ["%s_%s_quantizer" % (key, f) for f in GROUP_FIELDS[role]]
        else:
          names = ["%s_%s_quantizer" % (ls["name"], SUFFIX[role])]
        roles[role] = {"limit": lim, "allowed": weak, "allowed_strict": strict, "bits": bits, "names": names}
    quantize = bool(roles) and (ls["cls"] in WEIGHT or ls["cls"] == "Activation")
    tunable = (quantize and scn["tune"] in ("layer", "block") and ls["cls"] in TUNABLE and
               not (exc is not None and re.search(exc, ls["name"])))
    out.append({"name": ls["name"], "cls": ls["cls"], "quantize": quantize, "roles": roles, "selected": selected,
                "marked": selected and key is not None, "tunable": tunable, "key": key, "grouped": grouped,
                "spec": ls})
  return out


def predicted_leaves(scn):
  seen, n = {}, 1
  cfg = cfg_of(scn)
  for p in plan(scn):
    for role, r in p["roles"].items():
      name = r["names"][-1] if role in ("recurrent", "pointwise") and p["grouped"] else r["names"][0]
      if name not in seen:
        m = len(r["allowed"])
        if role in ("recurrent", "pointwise") and "kernel" in p["roles"]:
          # only a cost estimate (sharding): these decisions may offer as many values as the kernel's
          m = max(m, len(p["roles"]["kernel"]["allowed"]))
        seen[name] = max(1, m)
    if p["tunable"]:
      seen["network_filters" + ("" if scn["tune"] == "block" else "_" + p["name"])] = len(FILTER_RANGE)
  for v in seen.values():
    n *= v
  return n


def domain_ok(scn):
  # the first pass of quantize_model asks for a kernel decision for every registered layer, selected by
  # layer_indexes or not: an empty offer anywhere (limit below the smallest configured quantizer) is
  # outside the domain whatever the selection
  for p in plan(dict(scn, layer_indexes=None)):
    for r in p["roles"].values():
      if not r["allowed"]:
        return False
  return True


# ----------------------------------------------------------------------------- scenario generator
BITS = [1, 2, 3, 4, 5, 6, 8, 16]


def _lim3(rnd, rnn=False):
  v = [rnd.choice(BITS[1:]), rnd.choice(BITS[2:]), rnd.choice(BITS[1:])]
  if rnn:
    v = [v[0], v[1], rnd.choice(BITS[1:]), v[2]]
  return v


def scenario_templates(rnd):
  """(sid, builder) pairs; a builder draws one scenario (limits / config) from `rnd`."""
  def base(model, limit, cfg="small", tune="none", exc="^$", layer_indexes=None, mode="exhaustive", **kw):
    d = {"model_name": model, "limit": limit, "cfg": cfg, "tune": tune, "exc": exc,
         "layer_indexes": layer_indexes, "mode": mode}
    d.update(kw)
    return d

  T = []
  T.append(("class.mlp_inline", lambda r: base("mlp_inline", {"Dense": _lim3(r), "Activation": [r.choice(BITS[1:])]})))
  T.append(("float_nonlinearity.mlp_float_act", lambda r: base("mlp_float_act", {"Dense": _lim3(r)})))
  T.append(("default_padding.mlp_inline", lambda r: base(
      "mlp_inline", {"Dense": [r.choice(BITS[1:])], "default": r.choice([3, 4, 6, [4, 6, 3], [8, 4, 8, 4], [6, 3, 8, 4]])},
      layer_indexes=r.choice([[1, 2, 3], [1, 3, 4, 5], [2, 4]]))))
  T.append(("default_padding4.mlp_inline", lambda r: base(
      "mlp_inline", {"Dense": r.choice([[r.choice(BITS[2:])], []]), "Activation": [r.choice(BITS[1:])],
                     "default": r.choice([[8, 4, 8, 4], [6, 3, 8, 4], [8, 3, 16, 6]])})))
  T.append(("default_padding4.rnn_dense", lambda r: base(
      "rnn_dense", {"SimpleRNN": [r.choice(BITS[3:])], "Dense": [r.choice(BITS[3:])],
                    "default": r.choice([[8, 4, 8, 4], [8, 4, 4, 8]])}, cap=32)))
  T.append(("pattern_group.mlp_branch", lambda r: base(
      "mlp_branch", {"^b0_": _lim3(r), "Dense": _lim3(r), "Activation": [r.choice(BITS[1:])]})))
  T.append(("allow_lists.mlp_branch", lambda r: base("mlp_branch", "ALLOW_LISTS")))
  T.append(("class.conv", lambda r: base(
      "conv", {"Conv2D": _lim3(r), "DepthwiseConv2D": _lim3(r), "Dense": _lim3(r), "Activation": [r.choice(BITS[1:])]})))
  T.append(("pattern_and_indexes.conv", lambda r: base(
      "conv", {"^c\\d$": _lim3(r), "DepthwiseConv2D": _lim3(r), "Dense": _lim3(r), "Activation": [r.choice(BITS[1:])],
               "Flatten": []},
      layer_indexes=r.choice([[1, 2, 3], [1, 4, 6], [2, 3, 4, 7]]))))
  T.append(("class.conv1d", lambda r: base(
      "conv1d", {"Conv1D": _lim3(r), "Activation": [r.choice(BITS[1:])], "default": r.choice([4, 8])})))
  T.append(("separable.sep", lambda r: base(
      "sep", {"SeparableConv2D": _lim3(r), "Conv2D": _lim3(r), "Dense": _lim3(r)})))
  T.append(("recurrent.rnn2", lambda r: base(
      "rnn2", {"SimpleRNN": _lim3(r, True), "Dense": _lim3(r)}, recurrent_below_kernel=True, lean=True)))
  T.append(("recurrent.lstm", lambda r: base(
      "lstm", {"LSTM": _lim3(r, True), "Dense": _lim3(r), "Activation": [r.choice(BITS[2:])]}, lean=True)))
  T.append(("recurrent_pattern.rnn_dense", lambda r: base(
      "rnn_dense", {"^r\\d": _lim3(r, True), "Dense": _lim3(r)}, cap=32)))
  T.append(("library_default.lstm", lambda r: base(
      "lstm", {"LSTM": [4, 8, 4, 8], "Dense": [4, 8, 8]}, cfg="library_default", mode="sampled")))
  T.append(("pattern_group_linear.group", lambda r: base(
      "group", {"^b0_": _lim3(r), "^b1_": _lim3(r), "Dense": _lim3(r)})))
  T.append(("pattern_precedence.group", lambda r: base(
      "group", {"^b0_d": [r.choice([2, 3]), 8, 8], "^b": [r.choice([6, 8]), r.choice([3, 4]), r.choice(BITS[1:])],
                "Dense": _lim3(r), "Activation": [r.choice(BITS[1:])]})))
  T.append(("batchnorm_marked.bn", lambda r: base(
      "bn", {"Conv2D": _lim3(r), "BatchNormalization": [], "Activation": [r.choice(BITS[1:])], "Dense": _lim3(r)})))
  T.append(("pattern_short_activation.bn", lambda r: base(      # the documented one-element form for Activation layers
      "bn", {"Conv2D": _lim3(r), "^a\\d$": [r.choice([2, 3, 4])], "^mp$": [], "Dense": _lim3(r)})))
  T.append(("batchnorm_unmarked.bn", lambda r: base(
      "bn", {"Conv2D": _lim3(r), "^a\\d$": _lim3(r), "^mp$": []})))
  T.append(("tune_layer_tail.mlp_tail", lambda r: base(
      "mlp_tail", {"Dense": _lim3(r), "Activation": [r.choice(BITS[1:])]}, tune="layer", exc="^d\\d$", lean=True)))
  T.append(("tune_block_tail.conv_tail", lambda r: base(
      "conv_tail", {"Conv2D": _lim3(r), "Activation": [r.choice(BITS[1:])]}, tune="block", exc="c0", lean=True)))
  T.append(("tune_block_only_selected.mlp_tail", lambda r: base(
      "mlp_tail", {"Dense": _lim3(r)}, tune="block", exc="^tail$", layer_indexes=[1], lean=True)))
  T.append(("tune_block_chain.mlp_inline", lambda r: base(
      "mlp_inline", {"Dense": _lim3(r), "Activation": [r.choice(BITS[1:])]}, tune="block", exc="^d2$", lean=True)))
  T.append(("tune_layer_chain.conv", lambda r: base(
      "conv", {"Conv2D": _lim3(r), "DepthwiseConv2D": _lim3(r), "Dense": _lim3(r)}, tune="layer", exc="^(out|c1)$",
      lean=True)))
  T.append(("empty_selection.mlp_inline", lambda r: base(
      "mlp_inline", {"Dense": _lim3(r), "Activation": [r.choice(BITS[1:])]}, layer_indexes=[])))
  T.append(("empty_selection.conv", lambda r: base(
      "conv", {"Conv2D": _lim3(r), "DepthwiseConv2D": _lim3(r), "Dense": _lim3(r), "Activation": [r.choice(BITS[1:])]},
      layer_indexes=[], tune=r.choice(["none", "layer"]), exc="^out$", lean=True)))
  T.append(("single_index.mlp_branch", lambda r: base(
      "mlp_branch", {"Dense": _lim3(r), "Activation": [r.choice(BITS[1:])]}, layer_indexes=[r.choice([0, 1, 2, 3, 5])])))
  T.append(("ctor_default_exceptions.mlp_inline", lambda r: base(
      "mlp_inline", {"Dense": _lim3(r)}, exc=None)))
  T.append(("limit_at_minimum.mlp_inline", lambda r: base("mlp_inline", "AT_MINIMUM")))
  T.append(("limit_at_minimum.conv", lambda r: base("conv", "AT_MINIMUM")))
  T.append(("no_limit.mlp_branch", lambda r: base("mlp_branch", r.choice([None, {}, {"default": 4}]))))
  T.append(("library_default.mlp_inline", lambda r: base(
      "mlp_inline", {"Dense": [r.choice([4, 8]), 8, r.choice([4, 8, 16])], "Activation": [r.choice([3, 4, 8])]},
      cfg="library_default", mode="sampled")))
  T.append(("library_default.conv", lambda r: base(
      "conv", {"^c\\d$": [r.choice([2, 4]), 8, r.choice([4, 8])], "DepthwiseConv2D": [4, 4, 4], "Dense": [8, 8, 8],
               "Activation": [r.choice([2, 4, 16])], "default": 8},
      cfg="library_default", mode="sampled")))
  T.append(("library_default.rnn2", lambda r: base(
      "rnn2", {"SimpleRNN": [r.choice([2, 4]), 8, r.choice([1, 2, 4]), 8], "Dense": [8, 4, 8]},
      cfg="library_default", mode="sampled")))
  return T


def _finish(scn, rnd, tier):
  """Fills in config-dependent parts and redraws until the scenario lies in the domain and its
  predicted number of leaves fits the tier's cap."""
  scn = dict(scn)
  scn["model"] = MODELS[scn["model_name"]]
  if scn["cfg"] == "small":
    scn["cfg"] = small_cfg(rnd, 2)
  cfg = cfg_of(scn)
  if scn["limit"] == "AT_MINIMUM":
    lo = {k: min(v.values()) for k, v in cfg.items()}
    three = [lo["kernel"], lo["bias"], lo["activation"]]
    scn["limit"] = {"Dense": list(three), "Conv2D": list(three), "DepthwiseConv2D": list(three),
                    "Activation": [lo["activation"]]}
  elif scn["limit"] == "ALLOW_LISTS":
    ks = list(cfg["kernel"])
    acts = list(cfg["activation"])
    scn["limit"] = {"Dense": [rnd.sample(ks, min(2, len(ks))), rnd.choice([4, 8]), [rnd.choice(acts)]],
                    "Activation": [rnd.sample(acts, min(2, len(acts)))]}
  if scn.get("lean"):       # filter-tuning scenarios: only the kernels (and the filter factors) are real choices
    lo = {k: min(v.values()) for k, v in cfg.items()}
    for key, e in scn["limit"].items():
      if key == "Activation":
        e[0] = lo["activation"]
      elif isinstance(e, list) and len(e) == 3:
        e[1], e[2] = lo["bias"], lo["activation"]
      elif isinstance(e, list) and len(e) == 4:
        e[1], e[3] = lo["bias"], lo["activation"]
  if scn.get("recurrent_below_kernel"):     # the recurrent limit is the tighter one (documented 3rd entry)
    e = scn["limit"]["SimpleRNN"]
    rk = sorted(set(cfg.get("recurrent_kernel", cfg["kernel"]).values()) | set(cfg["kernel"].values()))
    e[2] = rk[0]
    e[0] = max(e[0], rk[-1])
  scn["ff"] = {"delta_p": rnd.choice([1.0, 8.0]), "delta_n": rnd.choice([2.0, 8.0]), "rate": rnd.choice([2.0, 4.0]),
               "ref_bits": rnd.choice([8, 8, 6, 16]), "input_bits": rnd.choice([8, 4]),
               "size_config": rnd.choice([{"default": ["parameters", "activations"]},
                                          {"default": ["parameters", "activations"]},
                                          {"default": ["parameters"], "QActivation": ["activations"],
                                           "Activation": ["activations"]}])}
  # output_bits differs from ref_bits in half of the scenarios (derived from the scenario id after the draw, so that the
  # random stream of the generator is left as it was).  Unquantized dense / convolution layers are sized at the reference
  # width whatever their inline activation; softmax / sigmoid outputs of Q layers and Activation layers are
  # sized at output_bits by the code, which the statement neither demands nor excludes (either is accepted)
  scn["activation_bits"] = rnd.choice([4, 4, 5])
  # one weight layer of the reference may be frozen (trainable = False survives model_quantize's JSON round trip)
  wl = [l["name"] for l in scn["model"]["layers"] if l["cls"] in ("Dense", "Conv2D", "Conv1D", "DepthwiseConv2D")]
  scn["frozen"] = [rnd.choice(wl)] if wl and scn["tune"] == "none" and rnd.random() < 0.35 else []
  return scn


def make_scenarios(tier, seed):
  rnd = random.Random(seed * 7919 + 20)
  reps = 1 if tier == "quick" else 4
  cap = LEAF_CAP[tier]
  out = []
  for rep in range(reps):
    for sid, builder in scenario_templates(rnd):
      scn = None
      for attempt in range(200):
        cand = _finish(builder(rnd), rnd, tier)
        if not domain_ok(cand):
          continue
        n = predicted_leaves(cand)
        lean_cap = min(cap, cand.get("cap", (24 if tier == "quick" else 40) if cand.get("lean") else cap))
        if cand["mode"] == "exhaustive" and n > lean_cap:
          continue
        scn = cand
        break
      if scn is None:
        raise RuntimeError("generator could not place scenario %s inside the domain" % sid)
      scn["sid"] = "%s#%d" % (sid, rep)
      rb_ = scn["ff"]["ref_bits"]
      scn["ff"]["output_bits"] = rb_ if zlib.crc32(scn["sid"].encode()) % 2 else {8: 16, 6: 8, 16: 8}[rb_]
      scn["predicted_leaves"] = predicted_leaves(scn)
      heavy = scn["model_name"] in COST
      scn["extra_random"] = (2 if heavy else 4) if tier == "quick" else (24 if heavy else 64)
      scn["max_pairwise"] = (12 if heavy else 24) if tier == "quick" else (60 if heavy else None)
      out.append(scn)
  return out


COST = {"rnn2": 4.0, "lstm": 3.0, "rnn_dense": 2.0}     # relative cost of one leaf (1 ~ 0.55 s on one core)


def cases(tier, seed):
  out = []
  per_shard = 28.0 if tier == "quick" else 70.0
  for scn in make_scenarios(tier, seed):
    w = COST.get(scn["model_name"], 1.0)
    if scn["mode"] == "exhaustive":
      est = scn["predicted_leaves"]
    else:
      est = (scn["max_pairwise"] or 90) + scn["extra_random"]
    k = max(1, min(16, int(math.ceil(est * w / per_shard))))
    for s in range(k):
      out.append({"part": "hp", "scn": scn, "shard": s, "nshards": k, "cost": est * w / k + 4.0})
  n_delta = 8 if tier == "quick" else 32
  for j in range(n_delta):
    out.append({"part": "delta", "chunk": j, "nchunks": n_delta, "cost": 1.0})
  # longest first, dealt to the 16 workers in snake order (worker = position % 16)
  out.sort(key=lambda c: -c["cost"])
  dealt = []
  for r in range(0, len(out), 16):
    chunk = out[r:r + 16]
    dealt.extend(chunk if (r // 16) % 2 == 0 else chunk[::-1])
  for i, c in enumerate(dealt):
    c["idx"], c["seed"] = i, seed
  return dealt


# ============================================================================= TF side
_VARIANTS = {}


def setup(ctx):
  seen, expected = hpstub.selftest()
  if set(seen) != expected or len(seen) != len(expected):
    raise RuntimeError("hp stub self-test failed: %r" % (seen,))
  ctx.count("stub.selftest")
  # online monitor on every delta() call, whoever makes it (build(), print_stats(), the grid below)
  import importlib
  import sys
  importlib.import_module("qkeras.autoqkeras.forgiving_metrics")
  ffm = sys.modules["qkeras.autoqkeras.forgiving_metrics.forgiving_factor"]   # the package re-binds the name to a dict
  import numpy as np
  orig = ffm.ForgivingFactor.delta

  def monitored(self):
    r = orig(self)
    try:
      ref, t = self.reference_size, self.trial_size
      if np.ndim(ref) == 0 and np.ndim(t) == 0 and ref > 0 and t > 0 and \
          float(self.delta_p) > 0 and float(self.delta_n) > 0 and float(self.rate) > 1:
        ctx.count("delta.online_calls")
        rv = float(r)
        bad = (t == ref and rv != 0.0) or (t < ref and not rv > 0) or (t > ref and not rv < 0)
        if bad:
          ctx.violation({"part": "delta", "kind": "delta_contract", "which": "sign_or_zero", "route": "online"},
                        "delta(reference=%r, trial=%r) = %r" % (ref, t, rv),
                        {"delta_p": float(self.delta_p), "delta_n": float(self.delta_n), "rate": float(self.rate)})
    except Exception:  # pylint: disable=broad-except
      ctx.count("delta.online_monitor_errors")
    return r

  ffm.ForgivingFactor.delta = monitored
  ctx.state["delta_orig"] = orig


def build_reference(spec, frozen=()):
  import tensorflow as tf
  KL = tf.keras.layers
  inp = KL.Input(tuple(spec["input"]), name="inp")
  tensors = {"inp": inp}
  prev = inp
  for ls in spec["layers"]:
    kw = {k: v for k, v in ls.items() if k not in ("cls", "name", "inputs")}
    layer = getattr(KL, ls["cls"])(name=ls["name"], **kw)
    ins = [tensors[n] for n in ls["inputs"]] if "inputs" in ls else prev
    if isinstance(ins, list) and len(ins) == 1:
      ins = ins[0]
    prev = layer(ins)
    tensors[ls["name"]] = prev
    if ls["name"] in frozen:
      layer.trainable = False       # a frozen (pre-trained) layer still occupies its bits
  m = tf.keras.Model(inp, prev)
  m.compile(optimizer="adam", loss="mse", metrics=["acc"])
  return m


def _js(o):
  return json.dumps(o, sort_keys=True, default=str)


def qsig(o):
  """Identity of whatever sits in a quantizer / activation slot."""
  import types
  if o is None:
    return ("none",)
  if isinstance(o, str):
    return ("str", o)
  if not isinstance(o, types.FunctionType) and hasattr(o, "get_config") and \
      type(o).__module__.split(".")[0] == "qkeras":
    try:
      return (type(o).__name__, _js(o.get_config()))
    except Exception:  # pylint: disable=broad-except
      return (type(o).__name__, str(o))
  return ("fn", getattr(o, "__name__", type(o).__name__))


def variants(s):
  """Signatures a configuration string may legitimately take inside a Q layer."""
  if s not in _VARIANTS:
    from qkeras import quantizers as Q
    a = Q.get_quantizer(s)
    b = Q.get_quantizer(s)
    if hasattr(b, "_set_trainable_parameter"):
      b._set_trainable_parameter()
    _VARIANTS[s] = (qsig(a), qsig(b))
  return _VARIANTS[s]


def is_quantizer(o):
  return qsig(o)[0] not in ("none", "str", "fn")


def actual_roles(tl):
  c = type(tl).__name__
  if c in ("QDense", "QConv1D", "QConv2D", "QDepthwiseConv2D"):
    qs = tl.get_quantizers()
    return {"kernel": qs[0], "bias": qs[1], "activation": tl.activation}
  if c == "QSeparableConv2D":
    qs = tl.get_quantizers()
    return {"kernel": qs[0], "pointwise": qs[1], "bias": qs[2], "activation": tl.activation}
  if c in ("QSimpleRNN", "QLSTM"):
    qs = tl.get_quantizers()
    return {"kernel": qs[0], "recurrent": qs[1], "bias": qs[2], "activation": tl.activation,
            "recurrent_activation": getattr(tl, "recurrent_activation", None)}
  if c == "QActivation":
    return {"activation": tl.quantizer, "linear": tl.quantizer}
  return None


def inbound_names(layer):
  import tensorflow as tf
  nodes = getattr(layer, "_inbound_nodes", [])
  if not nodes:
    return []
  return [l.name for l in tf.nest.flatten(nodes[0].inbound_layers)]


STRUCT_KEYS = ("kernel_size", "strides", "padding", "use_bias", "depth_multiplier", "return_sequences",
               "dilation_rate", "data_format", "groups", "pool_size", "axis", "go_backwards", "unroll")


def act_name(a):
  if a is None:
    return None
  if isinstance(a, str):
    return a
  return getattr(a, "__name__", type(a).__name__)


def find_decision(stub, names):
  by = {d.name: d for d in stub.decisions()}
  for n in names:
    if n in by:
      return by[n]
  return None


def why_outside(role_plan, actual):
  lim = role_plan["limit"]
  if not is_quantizer(actual):
    return "unquantized"
  if isinstance(lim, list):
    return "not_in_allow_list"
  b = getattr(actual, "bits", None)
  if b is not None and b > lim:
    return "over_limit"
  return "not_in_config"


def check_offered(ctx, scn, P, stub):
  done = set()
  planned = set()
  for p in P:
    for role, r in p["roles"].items():
      d = find_decision(stub, r["names"])
      planned.update(r["names"])
      if d is None:
        continue
      key = (d.name, role, p["cls"])
      if key in done:
        continue
      done.add(key)
      ctx.count("hp.offered_checked", len(d.values))
      ctx.evals(len(d.values))
      for v in d.values:
        if v not in r["allowed"]:
          lim = r["limit"]
          if isinstance(lim, list):
            why = "not_in_allow_list"
          elif v in r["bits"]:
            why = "over_limit"
          else:
            allb = {}
            for dct in cfg_of(scn).values():
              allb.update(dct)
            why = "over_limit" if (v in allb and allb[v] > lim) else "not_in_config"
          ctx.violation({"part": "hp", "kind": "offered_value_outside_allowed_set", "role": role, "cls": p["cls"],
                         "grouped": p["grouped"], "why": why},
                        "decision %s offers %r for the %s of %s (limit %r, admissible %r)" % (
                            d.name, v, role, p["name"], lim, r["allowed"]),
                        {"decision": d.as_json(), "limit": scn["limit"], "layer": p["name"]})
      if set(d.values) != set(r["allowed_strict"]):
        ctx.observe("offered_set_differs_from_admissible_set_of_role_config",
                    {"decision": d.name, "offered": list(d.values), "admissible": r["allowed_strict"], "role": role})
  for d in stub.decisions():
    if d.name not in planned and not d.name.startswith("network_filters"):
      ctx.observe("decision_asked_for_a_role_the_plan_leaves_alone", {"decision": d.name})
  for a in stub.anomalies:
    ctx.observe("stub_anomaly", a)


def indep_sizes(layer, ffp):
  """(parameters, activations) of the documented size model for in-scope layers, else None."""
  import numpy as np
  c = type(layer).__name__
  rb, ob = ffp["ref_bits"], ffp.get("output_bits", ffp["ref_bits"])
  out_n = int(np.prod([int(x) for x in layer.output.shape[1:]]))
  if c in ("Dense", "Conv1D", "Conv2D", "DepthwiseConv2D"):
    par = sum(int(np.prod(w.shape)) * rb for w in layer.weights)
    an = act_name(layer.activation)
    return par, (0 if an in (None, "linear") else rb * out_n)
  if c in ("QDense", "QConv1D", "QConv2D", "QDepthwiseConv2D"):
    qs = layer.get_quantizers()
    par = 0
    for i, w in enumerate(layer.weights):
      q = qs[i] if i < len(qs) else None
      par += int(np.prod(w.shape)) * (q.bits if q is not None else rb)
    a = layer.activation
    an = act_name(a)
    if a is None or an == "linear":
      bits = 0
    elif an == "softmax":
      return par, ob * out_n, rb * out_n
    elif hasattr(a, "bits"):
      bits = a.bits
    else:
      bits = rb
    return par, bits * out_n
  if c == "Activation":
    an = act_name(layer.activation)
    if an in ("softmax", "sigmoid"):
      return 0, ob * out_n, rb * out_n
    bits = 0 if an == "linear" else rb
    return 0, bits * out_n
  if c == "QActivation":
    q = layer.quantizer
    return 0, (q.bits if hasattr(q, "bits") else rb) * out_n
  return None


def check_sizes(ctx, ff, ffp, model, tag):
  ok, res = ctx.call({"part": "size", "stage": "compute_model_size", "model": tag}, ff.compute_model_size, model)
  if not ok:
    return None
  total, p_size, a_size, per = res
  sc = ffp["size_config"]
  tsum = 0
  for layer in model.layers:
    c = type(layer).__name__
    lc = sc.get(c, sc.get("default"))
    if not lc:
      continue
    got = per.get(layer.name)
    if got is None:
      ctx.violation({"part": "size", "kind": "size_model_differs", "what": "layer_missing", "cls": c},
                    "layer %s has a size configuration but no entry" % layer.name, None)
      continue
    tsum += got["total"]
    exp = indep_sizes(layer, ffp)
    if exp is None:
      continue
    if len(exp) == 3:                       # an entry the statement leaves open between two widths
      exp = (exp[0], exp[2] if int(got["activations"]) == int(exp[2]) else exp[1])
    ctx.count("hp.size_layers_checked")
    if ffp.get("output_bits", ffp["ref_bits"]) != ffp["ref_bits"]:
      ctx.count("hp.size_layers_checked_output_bits_differ")
    ctx.evals(3)
    for what, e, g in (("parameters", exp[0], got["parameters"]), ("activations", exp[1], got["activations"])):
      if int(g) != int(e):
        ctx.violation({"part": "size", "kind": "size_model_differs", "what": what, "cls": c},
                      "%s of %s (%s): size model %r, elements x bits = %r" % (what, layer.name, c, int(g), int(e)),
                      {"layer": layer.name, "quantizers": [str(q) for q in layer.get_quantizers()] if hasattr(layer, "get_quantizers") else None,
                       "activation": str(getattr(layer, "activation", None)), "ff": ffp})
    et = ("parameters" in lc) * exp[0] + ("activations" in lc) * exp[1]
    if int(got["total"]) != int(et):
      ctx.violation({"part": "size", "kind": "size_model_differs", "what": "total", "cls": c},
                    "total of %s: %r, expected %r under %r" % (layer.name, int(got["total"]), int(et), lc), None)
  if int(total) != int(tsum):
    ctx.violation({"part": "size", "kind": "size_model_differs", "what": "model_total", "cls": "model"},
                  "model total %r != sum of layer totals %r" % (total, tsum), None)
  return total


def check_leaf(ctx, scn, P, ref, stub, trial, ff):
  import numpy as np
  answers = stub.answers()
  sid_model = scn["sid"].split("#")[0]
  # ---- architecture: names, order, classes, connectivity
  ctx.count("hp.architecture_checked")
  rn = [l.name for l in ref.layers]
  tn = [l.name for l in trial.layers]
  if rn != tn:
    ctx.violation({"part": "hp", "kind": "architecture_differs", "what": "layer_names_or_order"},
                  "reference %r, trial %r" % (rn, tn), {"answers": answers})
    return
  ctx.evals(len(rn))
  group_seen = {}
  for p, rl, tl in zip(P, ref.layers, trial.layers):
    rc, tc = type(rl).__name__, type(tl).__name__
    if inbound_names(rl) != inbound_names(tl):
      ctx.violation({"part": "hp", "kind": "architecture_differs", "what": "connectivity", "cls": rc},
                    "%s: inputs %r in the reference, %r in the trial" % (p["name"], inbound_names(rl), inbound_names(tl)), None)
    rcfg, tcfg = rl.get_config(), tl.get_config()
    if not p["quantize"]:
      # ---- layers outside limits / layer_indexes, softmax, other classes: untouched
      ctx.count("hp.excluded_checked")
      ctx.evals(1)
      if rc == "BatchNormalization" and p["marked"] and tc == "QBatchNormalization":
        ctx.observe("marked_batchnorm_becomes_QBatchNormalization")
        continue
      if tc != rc or _js(tcfg) != _js(rcfg):
        reason = ("not_in_layer_indexes" if (not p["selected"] and p["cls"] in WEIGHT + ("Activation",)) else
                  ("softmax" if act_name(getattr(rl, "activation", None)) == "softmax" and rc == "Activation" else
                   ("no_limit_entry" if p["key"] is None else "class_without_roles")))
        diff = sorted(k for k in set(rcfg) | set(tcfg) if _js(rcfg.get(k)) != _js(tcfg.get(k)))
        ctx.violation({"part": "hp", "kind": "excluded_layer_changed", "cls": rc, "reason": reason},
                      "%s (%s) must stay as in the reference; trial has %s, config keys differing: %r" % (
                          p["name"], rc, tc, diff[:6]),
                      {"answers": answers, "layer_indexes": scn["layer_indexes"], "limit": scn["limit"]})
      continue
    # ---- layers to be quantized
    if tc != "Q" + rc:
      kind = "layer_left_unquantized" if tc == rc else "architecture_differs"
      sig = {"part": "hp", "kind": kind, "cls": rc}
      if kind == "architecture_differs":
        sig["what"] = "class"
      ctx.violation(sig, "%s: %s in the reference, %s in the trial although the tuner answered %r" % (
          p["name"], rc, tc, {k: v for k, v in answers.items() if k.startswith(p["name"] + "_")}),
                    {"answers": answers, "limit": scn["limit"]})
      continue
    for k in STRUCT_KEYS:
      if k in rcfg and k in tcfg and _js(rcfg[k]) != _js(tcfg[k]):
        ctx.violation({"part": "hp", "kind": "architecture_differs", "what": "structural_option", "cls": rc},
                      "%s.%s: %r -> %r" % (p["name"], k, rcfg[k], tcfg[k]), None)
    # units / filters
    for k in ("units", "filters"):
      if k in rcfg and rcfg[k] is not None:
        f = 1.0
        if p["tunable"]:
          dn = "network_filters" if scn["tune"] == "block" else "network_filters_" + p["name"]
          if dn in answers:
            f = answers[dn]
          else:
            ctx.observe("tunable_layer_without_filter_decision", {"layer": p["name"], "tune": scn["tune"]})
        want = max(int(rcfg[k] * f), 1)
        if f != 1.0:
          ctx.count("hp.scaled_units_checked")
        if tcfg.get(k) != want:
          ctx.violation({"part": "hp", "kind": "architecture_differs", "what": "units_or_filters", "cls": rc,
                         "tunable": p["tunable"]},
                        "%s.%s: reference %r, factor %r -> expected %r, trial has %r" % (
                            p["name"], k, rcfg[k], f, want, tcfg.get(k)), {"answers": answers})
    act = actual_roles(tl)
    spec = p["spec"]
    for role, r in p["roles"].items():
      a = act.get(role)
      place = "inline" if (role in ("activation", "recurrent_activation") and rc != "Activation") else "layer"
      base = {"part": "hp", "role": role, "cls": rc, "grouped": p["grouped"], "place": place}
      ctx.count("hp.membership_checked")
      ctx.evals(1)
      sa = qsig(a)
      if not any(sa in variants(k) for k in r["allowed"]):
        ctx.violation(dict(base, kind="quantizer_outside_allowed_set", why=why_outside(r, a)),
                      "%s of %s is %s; admissible under limit %r: %r" % (role, p["name"], str(a), r["limit"], r["allowed"]),
                      {"answers": answers, "limit": scn["limit"], "cfg": scn["cfg"], "activation_bits": scn["activation_bits"]})
      elif not any(sa in variants(k) for k in r["allowed_strict"]):
        ctx.observe("%s_quantizer_drawn_from_the_kernel_configuration" % role, {"layer": p["name"], "got": str(a)})
      d = find_decision(stub, r["names"])
      if d is None:
        ctx.count("hp.honour_unmapped")
      else:
        ctx.count("hp.honour_checked")
        ctx.evals(1)
        if sa not in variants(d.value):
          ctx.violation(dict(base, kind="choice_not_honoured"),
                        "tuner answered %r for %s but the %s of %s is %s" % (d.value, d.name, role, p["name"], str(a)),
                        {"answers": answers, "limit": scn["limit"]})
      if p["grouped"]:
        group_seen.setdefault((p["key"], role, place), []).append((p["name"], sa, str(a)))
    # roles the plan leaves alone on a quantized layer: linear / softmax inline activations stay
    if rc != "Activation" and "activation" not in p["roles"] and "activation" in act:
      ctx.count("hp.excluded_checked")
      if act_name(act["activation"]) != act_name(rl.activation):
        ctx.violation({"part": "hp", "kind": "excluded_layer_changed", "cls": rc, "reason": "linear_or_softmax_inline"},
                      "%s: inline activation %s became %s" % (p["name"], act_name(rl.activation), str(act["activation"])), None)
  # ---- one decision per pattern and role
  for (key, role, place), members in group_seen.items():
    if len(members) < 2:
      continue
    ctx.count("hp.group_checked")
    ctx.evals(len(members))
    if len({m[1] for m in members}) > 1:
      ctx.violation({"part": "hp", "kind": "group_not_shared", "role": role, "place": place},
                    "layers matched by %r carry different %s quantizers: %r" % (key, role, [(m[0], m[2]) for m in members]),
                    {"answers": answers, "limit": scn["limit"]})
  names_per_group = {}
  for p in P:
    if p["grouped"] and p["quantize"]:
      for role, r in p["roles"].items():
        d = find_decision(stub, r["names"])
        if d is not None:
          names_per_group.setdefault((p["key"], role), set()).add(d.name)
  for (key, role), ns in names_per_group.items():
    if len(ns) > 1:
      ctx.violation({"part": "hp", "kind": "group_not_shared", "role": role, "place": "decision_names"},
                    "pattern %r, role %s decided by several tuner parameters: %r" % (key, role, sorted(ns)), None)


def make_ff(scn):
  from qkeras.autoqkeras.forgiving_metrics import forgiving_factor
  f = scn["ff"]
  return forgiving_factor["bits"](delta_p=f["delta_p"], delta_n=f["delta_n"], rate=f["rate"], stress=1.0,
                                  input_bits=f["input_bits"], output_bits=f.get("output_bits", f["ref_bits"]), ref_bits=f["ref_bits"],
                                  config=copy.deepcopy(f["size_config"]))


def expected_delta(dp, dn, rate, ref, t):
  if t == ref:
    return 0.0
  return (dp if t < ref else dn) / 100.0 * math.log(float(ref) / float(t)) / math.log(rate)


def run_hp(case, ctx):
  import zlib
  import numpy as np
  import tensorflow as tf
  from qkeras.autoqkeras.autoqkeras_internal import AutoQKHyperModel
  import time
  t_start = time.time()
  scn = case["scn"]
  shard, nshards = case["shard"], case["nshards"]
  P = plan(scn)
  ref = build_reference(scn["model"], frozen=scn.get("frozen", ()))
  ffp = scn["ff"]
  ff = make_ff(scn)
  cfg_kind = "library_default" if scn["cfg"] == "library_default" else "small"
  base = {"part": "hp", "stage": "quantize_model", "tune": scn["tune"], "cfg": cfg_kind}
  ref_cfg_before = _js(ref.get_config())

  def construct():
    kw = dict(target=ff, limit=copy.deepcopy(scn["limit"]), tune_filters=scn["tune"],
              layer_indexes=copy.deepcopy(scn["layer_indexes"]), activation_bits=scn["activation_bits"],
              quantization_config=None if cfg_kind == "library_default" else copy.deepcopy(scn["cfg"]))
    if scn["exc"] is not None:
      kw["tune_filters_exceptions"] = scn["exc"]
    return AutoQKHyperModel(ref, ["acc"], **kw)

  state = {"early_abort": False}

  def leaf(stub, build=False):
    ok, hm = ctx.call({"part": "hp", "stage": "construct", "exceptions_arg": "default" if scn["exc"] is None else "given"},
                      construct)
    if not ok:
      state["early_abort"] = True
      return None
    sig = dict(base)
    if build:
      sig["stage"] = "build"

    def go():
      try:
        if build:
          return hm.build(stub), hm
        return hm.quantize_model(stub)[0], hm
      except Exception:
        sig["scaled"] = any(d.name.startswith("network_filters") and d.value != 1.0 for d in stub.decisions())
        raise

    ok, res = ctx.call(sig, go)
    ctx.count("hp.leaves")
    check_offered(ctx, scn, P, stub)
    if not ok:
      where = ctx.repo_frame(res.__traceback__) or ""
      if where.startswith("qkeras/autoqkeras/"):
        state["early_abort"] = True       # raised while still asking the tuner: the decision list is incomplete
      ctx.count("hp.leaves_raised")
      return None
    trial, hm = res
    ctx.count("hp.leaves_built")
    if any(len(d.values) > 1 for d in stub.branch_points()):
      ctx.nontrivial(scn["sid"], case["seed"], tuple(sorted((k, str(v)) for k, v in stub.answers().items())))
    check_leaf(ctx, scn, P, ref, stub, trial, ff)
    check_sizes(ctx, ff, ffp, trial, "trial")
    return trial, hm

  # ---- the reference itself: size model, zero bonus for equal sizes
  if shard == 0:
    rt = check_sizes(ctx, ff, ffp, ref, "reference")
    ok, r1 = ctx.call({"part": "size", "stage": "get_reference"}, ff.get_reference, ref)
    ok2, r2 = ctx.call({"part": "size", "stage": "get_trial"}, ff.get_trial, ref)
    if ok and ok2 and rt is not None:
      ctx.count("delta.model_zero_checked")
      d = float(ff.delta())
      if r1 != rt or r2 != rt or d != 0.0:
        ctx.violation({"part": "delta", "kind": "delta_contract", "which": "zero_for_the_reference_model", "route": "bits"},
                      "reference %r, trial(reference model) %r, total %r, delta %r" % (r1, r2, rt, d), None)

    # a stressed reference (stress != 1 shifts the reference the trials are compared with): the size
    # get_reference() reports is the one delta() must be calibrated against - zero for a trial of exactly
    # that size, sign and calibration relative to it
    if rt is not None:
      from qkeras.autoqkeras.forgiving_metrics import forgiving_factor
      for stress in (0.5, 2.0):
        okc, ffs = ctx.call({"part": "delta", "stage": "construct_stressed"}, lambda: forgiving_factor["bits"](
            delta_p=ffp["delta_p"], delta_n=ffp["delta_n"], rate=ffp["rate"], stress=stress, input_bits=ffp["input_bits"],
            output_bits=ffp.get("output_bits", ffp["ref_bits"]), ref_bits=ffp["ref_bits"], config=copy.deepcopy(ffp["size_config"])))
        if not okc:
          continue
        ok1, rs1 = ctx.call({"part": "size", "stage": "get_reference"}, ffs.get_reference, ref)
        ok2, ts1 = ctx.call({"part": "size", "stage": "get_trial"}, ffs.get_trial, ref)
        if not (ok1 and ok2):
          continue
        ctx.count("delta.stressed_reference_checked")
        d = float(ffs.delta())
        e = expected_delta(ffp["delta_p"], ffp["delta_n"], ffp["rate"], rs1, ts1)
        if rs1 != rt * stress or ts1 != rt or abs(d - e) > 1e-6 * abs(e) + 1e-15:
          ctx.violation({"part": "delta", "kind": "delta_contract", "which": "stressed_reference", "route": "bits"},
                        "stress %r: get_reference() = %r (size model %r), trial %r, delta %r, calibrated against the reported reference %r" % (
                            stress, rs1, rt, ts1, d, e), None)

  exhaustive = scn["mode"] == "exhaustive"
  first = hpstub.HPStub(script=[], fallback="first" if exhaustive else "default")
  res_first = leaf(first)
  first_leaf = None
  if res_first is not None:
    first_leaf = {"answers": first.answers(),
                  "trial_layers": [[l.name, type(l).__name__,
                                    [str(q) for q in l.get_quantizers()] if hasattr(l, "get_quantizers") else
                                    ([str(l.quantizer)] if hasattr(l, "quantizer") else None),
                                    act_name(getattr(l, "activation", None)) if not is_quantizer(getattr(l, "activation", None))
                                    else str(l.activation)] for l in res_first[0].layers]}
  names = [s[0] for s in first.shape()]
  radices = [s[1] for s in first.shape()]
  total = hpstub.count_product(radices)
  cap = 4 * LEAF_CAP[ctx.tier]
  done, complete, n_pairwise = 1, True, None
  if state["early_abort"]:
    complete = False
    ctx.count("hp.scenarios_aborted_at_first_leaf")
  elif exhaustive:
    if total > cap:
      complete = False
      ctx.count("hp.exhaustive_cap_exceeded")
    mismatch = False
    for leaf_no, script in hpstub.product_scripts(radices, shard, nshards, limit=cap):
      if leaf_no == 0:
        continue                      # the discovery run was this leaf
      stub = hpstub.HPStub(script=script, fallback="first")
      leaf(stub)
      done += 1
      if not state["early_abort"] and not hpstub.shape_matches(stub, names, radices):
        mismatch = True
        break
    if mismatch:
      # the decision points depend on earlier answers: enumerate the tree itself
      ctx.observe("hp_space_is_a_tree_not_a_product", {"sid": scn["sid"]})
      if shard == 0:
        n = 0
        for stub, _ in hpstub.dfs(lambda s: leaf(s), max_leaves=cap):
          n += 1
        total, done = n, n
        complete = bool(getattr(stub, "last_leaf", False))
      else:
        complete = False
  else:
    rnd = random.Random(case["seed"] * 1009 + zlib.crc32(scn["sid"].encode()))
    rows, n_pairwise, full = hpstub.pairwise_rows([(d.name, d.values) for d in first.branch_points()], rnd,
                                                  extra_random=scn["extra_random"], max_rows=scn["max_pairwise"])
    for row in rows[shard::nshards]:
      leaf(hpstub.HPStub(by_name=row, fallback="default"))
      done += 1
    complete = False
    if shard == 0:
      ctx.count("hp.pairwise_rows", n_pairwise)
      if not full:
        ctx.observe("pairwise_cover_truncated_by_row_cap", {"sid": scn["sid"], "rows": n_pairwise})

  # ---- build(): trial size, bonus and the adjusted score, on one assignment per scenario
  if shard == 0 and not state["early_abort"]:
    by = {d.name: d.value for d in first.decisions()}
    for k in list(by):
      if k.startswith("network_filters"):
        by[k] = 1.0
    stub = hpstub.HPStub(by_name=by, fallback="default")
    res = leaf(stub, build=True)
    if res is not None:
      q, hm = res
      ctx.count("hp.build_checked")
      ok, sz = ctx.call({"part": "size", "stage": "compute_model_size", "model": "built"}, ff.compute_model_size, q)
      if ok and (hm.trial_size != sz[0] or ff.trial_size != sz[0]):
        ctx.violation({"part": "delta", "kind": "trial_size_not_the_size_of_the_built_model"},
                      "hyper-model trial_size %r, size model of the built model %r" % (hm.trial_size, sz[0]), None)
      dexp = expected_delta(ffp["delta_p"], ffp["delta_n"], ffp["rate"], hm.reference_size, hm.trial_size)
      k = int(q.output_shape[-1])
      rng = np.random.default_rng(case["seed"] * 31 + case["idx"])
      yt = np.eye(k, dtype=np.float32)[rng.integers(0, k, size=12)]
      yp = rng.random((12, k)).astype(np.float32)
      yp /= yp.sum(axis=1, keepdims=True)
      ok, s = ctx.call({"part": "delta", "stage": "score"}, lambda: np.asarray(hm.score(tf.constant(yt), tf.constant(yp))))
      if ok:
        ctx.count("hp.score_checked")
        ctx.evals(12)
        acc = (yt.argmax(1) == yp.argmax(1)).astype(np.float64)
        want = acc * (1.0 + dexp)
        if s.shape != want.shape or np.abs(s - want).max() > 1e-5 * max(1.0, abs(1.0 + dexp)):
          ctx.violation({"part": "delta", "kind": "score_not_metric_times_one_plus_delta"},
                        "score %r, accuracy x (1 + %r) = %r (reference %r, trial %r)" % (
                            s.tolist()[:4], dexp, want.tolist()[:4], hm.reference_size, hm.trial_size),
                        {"ff": ffp})
  if _js(ref.get_config()) != ref_cfg_before:
    ctx.observe("reference_model_configuration_changed_by_the_hyper_model", {"sid": scn["sid"]})

  ctx.seen("hp.case_seconds", "w%02d %s shard %d/%d: %d leaves, %.0f s" % (
      ctx.widx, scn["sid"], shard, nshards, done, time.time() - t_start))
  if shard == 0:
    ctx.count("hp.scenarios")
    ctx.count("hp.scenarios_exhaustive" if (exhaustive and complete) else "hp.scenarios_sampled_or_cut")
    if not exhaustive:
      ctx.count("hp.scenarios_sampled")
    ctx.count("hp.decision_points", len(first.decisions()))
    summary = {"scenario": scn["sid"], "model": [(l["cls"], l["name"]) for l in scn["model"]["layers"]],
               "limit": scn["limit"], "quantization_config": cfg_kind if cfg_kind == "library_default" else scn["cfg"],
               "tune_filters": scn["tune"], "tune_filters_exceptions": scn["exc"], "layer_indexes": scn["layer_indexes"],
               "decision_points": ["%s:%d" % (d.name, len(d.values)) for d in first.decisions()],
               "space_leaves": total, "leaves_run_all_shards": (total if (exhaustive and complete) else None),
               "exhaustive": bool(exhaustive and complete), "shards": nshards,
               "pairwise_rows": n_pairwise, "random_rows": (None if exhaustive else scn["extra_random"])}
    ctx.seen("hp.scenarios", _js(summary))
    ctx.sample(dict(summary, first_leaf=first_leaf))


# ----------------------------------------------------------------------------- delta grid
def run_delta(case, ctx):
  import numpy as np
  from qkeras.autoqkeras.forgiving_metrics import forgiving_factor
  rnd = random.Random(case["seed"] * 65537 + case["chunk"])
  grid = []
  for dp in (0.5, 1.0, 8.0, 25.0):
    for dn in (0.5, 2.0, 8.0, 40.0):
      for rate in (1.1, 1.5, 2.0, 4.0, 10.0):
        for ref in (1, 7, 528, 100003, 2 ** 31 + 11, 10 ** 12):
          grid.append((dp, dn, rate, ref))
  grid = grid[case["chunk"]::case["nchunks"]]
  for dp, dn, rate, ref in grid:
    base = {"part": "delta"}
    ok, ff = ctx.call(base, lambda: forgiving_factor["bits"](delta_p=dp, delta_n=dn, rate=rate))
    if not ok:
      return
    ts = {ref, ref + 1, ref * 2, int(ref * rate) + 1, ref * 1000, rnd.randint(ref + 1, 3 * ref + 5)}
    if ref > 1:
      ts |= {ref - 1, max(1, ref // 2), max(1, int(ref / rate)), max(1, ref // 1000), rnd.randint(1, ref - 1)}
    for _ in range(0 if ctx.tier == "quick" else 16):
      ts.add(max(1, int(ref * 2.0 ** rnd.uniform(-12, 12))))
    ts = sorted(ts)
    vals = []
    for t in ts:
      ff.reference_size, ff.trial_size = ref, t
      ok, d = ctx.call(base, ff.delta)
      if not ok:
        return
      d = float(d)
      vals.append(d)
      ctx.count("delta.points")
      ctx.evals(3)
      ctx.nontrivial("delta", dp, dn, rate, ref, t)
      wit = {"delta_p": dp, "delta_n": dn, "rate": rate, "reference_size": ref, "trial_size": t, "delta": d}
      if t == ref and d != 0.0:
        ctx.violation({"part": "delta", "kind": "delta_contract", "which": "zero_at_equal_sizes", "route": "scalar"},
                      "delta(ref=%r, trial=%r) = %r" % (ref, t, d), wit)
      if (t < ref and not d > 0) or (t > ref and not d < 0):
        ctx.violation({"part": "delta", "kind": "delta_contract", "which": "sign", "route": "scalar"},
                      "delta(ref=%r, trial=%r) = %r" % (ref, t, d), wit)
      e = expected_delta(dp, dn, rate, ref, t)
      if abs(d - e) > 1e-6 * abs(e) + 1e-15:
        ctx.violation({"part": "delta", "kind": "delta_contract", "which": "documented_calibration", "route": "scalar",
                       "side": "smaller" if t < ref else "larger"},
                      "delta(ref=%r, trial=%r) = %r, documented %r%% per %r-fold -> %r" % (
                          ref, t, d, dp if t < ref else dn, rate, e), wit)
      if abs(t - ref) == 1 and ref >= 100003 and abs(d) > 1e-3:
        ctx.violation({"part": "delta", "kind": "delta_contract", "which": "continuity_at_equality", "route": "scalar"},
                      "delta(ref=%r, trial=%r) = %r" % (ref, t, d), wit)
    for i in range(len(ts) - 1):
      ctx.count("delta.monotone_pairs")
      if not vals[i] > vals[i + 1]:
        ctx.violation({"part": "delta", "kind": "delta_contract", "which": "strictly_decreasing", "route": "scalar"},
                      "trial %r -> %r but delta %r -> %r (ref %r)" % (ts[i], ts[i + 1], vals[i], vals[i + 1], ref),
                      {"delta_p": dp, "delta_n": dn, "rate": rate, "reference_size": ref})
    # array form (np.where suggests it is supported): same values element-wise
    ff.reference_size, ff.trial_size = ref, np.asarray(ts, dtype=np.float64)
    ok, arr = ctx.call(dict(base, route="array"), ff.delta)
    if ok:
      ctx.count("delta.array_calls")
      arr = np.asarray(arr, dtype=np.float64)
      if arr.shape != (len(ts),) or np.abs(arr - np.asarray(vals)).max() > 1e-9 * max(1.0, np.abs(arr).max()):
        ctx.violation({"part": "delta", "kind": "delta_contract", "which": "array_form_differs_from_scalar", "route": "array"},
                      "scalar %r, array %r" % (vals[:4], arr.tolist()[:4]), None)
  ctx.sample({"part": "delta", "example": {"delta_p": dp, "delta_n": dn, "rate": rate, "reference_size": ref,
                                            "trial_sizes": ts, "delta": vals}})


def run_case(case, ctx):
  if case["part"] == "hp":
    run_hp(case, ctx)
  else:
    run_delta(case, ctx)
