"""C20 - AutoQKeras trials respect the search limits; forgiving-factor scoring.

part "hp":    one case = one shard of the hyper-parameter space of one scenario
              (reference model x limit dictionary x quantization config x tune_filters x
              layer_indexes); `AutoQKHyperModel(...).quantize_model(stub)` is driven with the
              recording / replaying stub of vf/monitors/hpstub.py for every leaf of the space
              (small configs) or for a pairwise-covering + random sample (library default config).
part "delta": contracts of `ForgivingFactor.delta` over a grid of (delta_p, delta_n, rate, sizes).

Everything above the line "TF side" is pure Python (no tensorflow import): model specifications,
the independent resolution of the limits (`plan`) and the case generator.
"""
import copy
import json
import math
import random
import re

from vf.monitors import hpstub

PID = "C20"
RULE = ("hp: one case = one shard of one scenario = (reference model of 3-7 layers out of {Dense, Conv1D, "
        "Conv2D, DepthwiseConv2D, SeparableConv2D, SimpleRNN, LSTM, Activation, BatchNormalization, Add, "
        "Flatten, pooling}, limit dictionary {per class | regex pattern | list-valued allow-list | `default` "
        "padding | none}, quantization config {2-3 quantizers per role drawn per seed | library default}, "
        "tune_filters, tune_filters_exceptions, layer_indexes). Small configs: every leaf of the decision tree "
        "is executed (mixed-radix over the recorded decision points, shape verified on every replay, DFS "
        "fall-back); library default config: pairwise covering array + random assignments. Per leaf: offered "
        "values and the built trial model are compared with the independently resolved plan. Non-trivial = a "
        "distinct (scenario, complete assignment) leaf of a space with at least one real choice, or a distinct "
        "delta grid point. delta: grid over delta_p x delta_n x rate x reference size x trial sizes "
        "(equal, +-1, /rate, *rate, random), scalar and array form.")
ANCHORS = [("qkeras/autoqkeras/autoqkeras_internal.py", 199, 325),
           ("qkeras/autoqkeras/autoqkeras_internal.py", 327, 561),
           ("qkeras/autoqkeras/forgiving_metrics/forgiving_factor.py", 40, 47),
           ("qkeras/autoqkeras/forgiving_metrics/forgiving_bits.py", 40, 175),
           ("qkeras/autoqkeras/autoqkeras_internal.py", 693, 724)]
ASSUMPTIONS = [
    "limit resolution (independent of the code under test): keys of `limit` other than registered class names and "
    "'default' are regular expressions tried with re.match in dictionary order against the layer name, first match "
    "wins and groups the layer; otherwise the entry of the layer's class; otherwise the layer is not quantized. "
    "Entry layout as documented in AutoQKHyperModel.__init__: [weight, bias, activation], RNN [weight, bias, "
    "recurrent, activation], Activation [activation]; missing trailing values come from `default` (8 if absent). "
    "Generated layer names are lower case so no layer name matches a class-name key",
    "bits(k) is the value the quantization configuration declares for k; a quantizer object in the trial model is "
    "identified with a configuration string when class and get_config() agree with qkeras.get_quantizer(string), "
    "before or after the `_set_trainable_parameter()` adjustment every weight-bearing Q layer applies (trusted base: "
    "the string parser, subject of C10)",
    "recurrent / pointwise kernels: candidates are quantization_config['recurrent_kernel'/'pointwise_kernel'] when "
    "present and quantization_config['kernel'] (weaker reading; drawing from 'kernel' is only observed); the "
    "recurrent limit is the documented third entry of an RNN limit",
    "domain: limits leave at least one admissible quantizer per role; RNN limit entries have 4 values; pattern "
    "entries are complete; Bidirectional, GRU, Conv2DTranspose and Reshape are not generated (API drift in the "
    "pinned runtime / not executable)",
    "size model: output_bits == ref_bits in the model scenarios (the statement does not separate them); per-layer "
    "entries of compute_model_size are recomputed for Dense/Conv1D/Conv2D/DepthwiseConv2D/Activation and their Q "
    "versions from the layer's own variables and quantizer objects",
    "delta domain: delta_p, delta_n > 0, rate > 1, sizes >= 1; the documented meaning of the parameters (delta_p % "
    "per `rate`-fold decrease, delta_n % per `rate`-fold increase) is checked to 1e-6 relative",
]
TIMEOUT = {"quick": 600, "thorough": 2400}
WORKERS = {"quick": 16, "thorough": 16}
EXHAUSTIVE = {"quick": False, "thorough": False}   # per-scenario exhaustiveness is reported in observed_sets

RNN = ("SimpleRNN", "LSTM")
CONVLIKE = ("Dense", "Conv1D", "Conv2D", "DepthwiseConv2D", "SeparableConv2D")
WEIGHT = CONVLIKE + RNN
CLASS_KEYS = ("Dense", "Conv1D", "Conv2D", "DepthwiseConv2D", "SimpleRNN", "LSTM", "GRU", "Bidirectional",
              "Conv2DTranspose", "SeparableConv1D", "SeparableConv2D", "Activation", "BatchNormalization",
              "Flatten", "Add", "GlobalAveragePooling1D", "GlobalAveragePooling2D", "MaxPooling2D", "ReLU")
TUNABLE = ("Dense", "Conv1D", "Conv2D", "SeparableConv2D")
FILTER_RANGE = [0.5, 0.75, 1.0, 1.5, 2.0]
LEAF_CAP = {"quick": 96, "thorough": 256}


def thresholds(tier):
  if tier == "quick":
    return {"hp.scenarios": 12, "hp.leaves": 350, "hp.leaves_built": 300, "hp.scenarios_exhaustive": 8,
            "hp.scenarios_sampled": 1, "hp.offered_checked": 2500, "hp.membership_checked": 1800,
            "hp.honour_checked": 1500, "hp.excluded_checked": 600, "hp.group_checked": 120,
            "hp.architecture_checked": 300, "hp.scaled_units_checked": 10, "hp.size_layers_checked": 1200,
            "hp.build_checked": 8, "hp.score_checked": 8, "delta.points": 3000, "delta.monotone_pairs": 2500,
            "stub.selftest": 1, "distinct_nontrivial": 3000}
  return {"hp.scenarios": 60, "hp.leaves": 3000, "hp.leaves_built": 2500, "hp.scenarios_exhaustive": 40,
          "hp.scenarios_sampled": 4, "hp.offered_checked": 20000, "hp.membership_checked": 15000,
          "hp.honour_checked": 12000, "hp.excluded_checked": 5000, "hp.group_checked": 800,
          "hp.architecture_checked": 2500, "hp.scaled_units_checked": 60, "hp.size_layers_checked": 10000,
          "hp.build_checked": 40, "hp.score_checked": 40, "delta.points": 12000, "delta.monotone_pairs": 10000,
          "stub.selftest": 1, "distinct_nontrivial": 15000}


# ----------------------------------------------------------------------------- model specifications
def L(cls, name, **kw):
  d = {"cls": cls, "name": name}
  d.update(kw)
  return d


MODELS = {
    "mlp_inline": {"input": [6], "layers": [
        L("Dense", "d0", units=4, activation="relu"), L("Dense", "d1", units=3),
        L("Activation", "a1", activation="relu"), L("Dense", "d2", units=2),
        L("Activation", "sm", activation="softmax")]},
    "mlp_branch": {"input": [5], "layers": [
        L("Dense", "b0_d", units=4, activation="tanh", inputs=["inp"]),
        L("Dense", "b0_e", units=4, use_bias=False, inputs=["inp"]),
        L("Add", "add", inputs=["b0_d", "b0_e"]), L("Activation", "act", activation="relu"),
        L("Dense", "out", units=3, activation="softmax")]},
    "conv": {"input": [6, 6, 2], "layers": [
        L("Conv2D", "c0", filters=3, kernel_size=2, activation="relu"),
        L("DepthwiseConv2D", "dw", kernel_size=2), L("Activation", "a0", activation="relu"),
        L("Conv2D", "c1", filters=2, kernel_size=2, use_bias=False), L("Flatten", "fl"),
        L("Dense", "out", units=2), L("Activation", "sm", activation="softmax")]},
    "conv1d": {"input": [8, 2], "layers": [
        L("Conv1D", "k0", filters=3, kernel_size=3, activation="sigmoid"), L("Conv1D", "k1", filters=2, kernel_size=2),
        L("Activation", "ta", activation="tanh"), L("GlobalAveragePooling1D", "gap"),
        L("Dense", "out", units=2)]},
    "sep": {"input": [6, 6, 2], "layers": [
        L("SeparableConv2D", "s0", filters=3, kernel_size=2, activation="relu"),
        L("Conv2D", "c", filters=2, kernel_size=2), L("GlobalAveragePooling2D", "gap"),
        L("Dense", "out", units=2)]},
    "rnn2": {"input": [3, 2], "layers": [
        L("SimpleRNN", "r0", units=3, return_sequences=True), L("SimpleRNN", "r1", units=2),
        L("Dense", "out", units=2)]},
    "lstm": {"input": [3, 2], "layers": [
        L("LSTM", "l0", units=3), L("Dense", "d", units=2), L("Activation", "sg", activation="sigmoid")]},
    "group": {"input": [6], "layers": [
        L("Dense", "b0_d", units=4), L("Activation", "b0_lin", activation="linear"),
        L("Dense", "b0_e", units=3), L("Activation", "b0_act", activation="relu"),
        L("Dense", "b1_d", units=3, activation="relu"), L("Activation", "b1_act", activation="relu"),
        L("Dense", "other", units=2)]},
    "bn": {"input": [6, 6, 2], "layers": [
        L("Conv2D", "c0", filters=3, kernel_size=3), L("BatchNormalization", "bn0"),
        L("Activation", "a0", activation="relu"), L("MaxPooling2D", "mp", pool_size=2), L("Flatten", "fl"),
        L("Dense", "out", units=2, activation="softmax")]},
    "mlp_tail": {"input": [5], "layers": [
        L("Dense", "d0", units=4, activation="relu"), L("Dense", "d1", units=4),
        L("Activation", "a1", activation="relu"), L("Dense", "tail", units=3, activation="softmax")]},
    "conv_tail": {"input": [6, 6, 2], "layers": [
        L("Conv2D", "c0", filters=2, kernel_size=2, activation="relu"), L("Conv2D", "tail", filters=3, kernel_size=2),
        L("Activation", "a", activation="relu"), L("GlobalAveragePooling2D", "gap")]},
    "rnn_dense": {"input": [3, 2], "layers": [
        L("Dense", "d0", units=3, activation="relu"), L("SimpleRNN", "r0", units=2, activation="relu"),
        L("Dense", "out", units=2)]},
}

POOL = {
    "kernel": [("binary", 1), ("ternary", 2), ("quantized_bits(2,1,1,alpha=1.0)", 2), ("quantized_bits(3,0,1)", 3),
               ("quantized_bits(4,0,1)", 4), ("quantized_po2(4,1)", 4), ("quantized_bits(6,0,1)", 6),
               ("quantized_bits(8,0,1)", 8)],
    "bias": [("quantized_bits(3,0,1)", 3), ("quantized_bits(4,0,1)", 4), ("quantized_po2(4,8)", 4),
             ("quantized_bits(6,2,1)", 6), ("quantized_bits(8,3,1)", 8)],
    "activation": [("binary", 1), ("ternary", 2), ("quantized_relu(2,1)", 2), ("quantized_relu(3,1)", 3),
                   ("quantized_relu(5,2)", 5), ("quantized_relu_po2(4,4)", 4), ("quantized_relu(6,2)", 6),
                   ("quantized_relu(8,4)", 8)],
    "linear": [("ternary", 2), ("quantized_bits(3,1)", 3), ("quantized_bits(5,1)", 5), ("quantized_bits(7,2)", 7),
               ("quantized_po2(6,4)", 6)],
    "recurrent_kernel": [("quantized_bits(2,0,1,alpha=1.0)", 2), ("quantized_bits(3,0,1,alpha=1.0)", 3),
                         ("quantized_bits(5,0,1,alpha=1.0)", 5), ("quantized_bits(7,0,1,alpha=1.0)", 7)],
    "pointwise_kernel": [("quantized_bits(2,0,1,alpha=1.0)", 2), ("quantized_bits(3,0,1,alpha=1.0)", 3),
                         ("quantized_bits(5,0,1,alpha=1.0)", 5)],
    "recurrent_activation": [("quantized_sigmoid(3)", 3), ("quantized_sigmoid(5)", 5), ("quantized_sigmoid(7)", 7)],
}

LIBRARY_DEFAULT = {     # literal copy of the documented default (the oracle never imports the library's dictionary)
    "kernel": {"binary": 1, "stochastic_binary": 1, "ternary": 2, "stochastic_ternary": 2,
               "quantized_bits(2,1,1,alpha=1.0)": 2, "quantized_bits(4,0,1)": 4, "quantized_bits(8,0,1)": 8,
               "quantized_po2(4,1)": 4},
    "bias": {"quantized_bits(4,0,1)": 4, "quantized_bits(8,3,1)": 8, "quantized_po2(4,8)": 4},
    "activation": {"binary": 1, "binary(alpha='auto_po2')": 1, "ternary": 2, "quantized_relu(3,1)": 3,
                   "quantized_relu(4,2)": 4, "quantized_relu(8,2)": 8, "quantized_relu(8,4)": 8,
                   "quantized_relu(16,8)": 16, "quantized_relu_po2(4,4)": 4},
    "linear": {"binary": 1, "ternary": 2, "quantized_bits(4,1)": 4, "quantized_bits(8,2)": 8,
               "quantized_bits(16,10)": 16, "quantized_po2(6,4)": 6},
}


def small_cfg(rnd, n=2):
  cfg = {}
  for role, pool in POOL.items():
    k = n if rnd.random() < 0.75 else min(n + 1, len(pool))
    picks = rnd.sample(pool, k)
    picks.sort(key=lambda kv: (kv[1], kv[0]))
    cfg[role] = {s: b for s, b in picks}
  return cfg


def cfg_of(scn):
  return LIBRARY_DEFAULT if scn["cfg"] == "library_default" else scn["cfg"]


# ----------------------------------------------------------------------------- independent plan
def roles_of(ls):
  """Tensor roles the hyper-model decides for a layer of the reference model."""
  cls = ls["cls"]
  act = ls.get("activation")
  if cls in RNN and act is None:
    act = "tanh"
  roles = []
  if cls in WEIGHT:
    roles.append("kernel")
    if cls == "SeparableConv2D":
      roles.append("pointwise")
    if cls in RNN:
      roles.append("recurrent")
    if ls.get("use_bias", True):
      roles.append("bias")
    if act not in (None, "linear", "softmax"):
      roles.append("activation")
    if cls == "LSTM":
      roles.append("recurrent_activation")
  elif cls == "Activation":
    if act == "linear":
      roles.append("linear")
    elif act != "softmax":
      roles.append("activation")
  return roles


def resolve_entry(limit, lname, lcls):
  for key in limit:
    if key == "default" or key in CLASS_KEYS:
      continue
    if re.match(key, lname):
      return key, True
  if lcls in limit:
    return lcls, False
  return None, False


def limit_value(limit, key, grouped, lcls, role):
  entry = list(limit[key])
  n = 4 if lcls in RNN else (1 if (lcls == "Activation" and not grouped) else 3)
  if not grouped and len(entry) < n:
    default = limit.get("default")
    if default is None:
      default = 8
    dl = list(default) if isinstance(default, list) else None
    while len(entry) < n:
      i = len(entry)
      if dl is None:
        entry.append(default)
      else:     # positions of the default list: weight, bias, (recurrent,) activation
        entry.append(dl[-1] if i == n - 1 else dl[min(i, len(dl) - 1)])
  if role in ("kernel", "pointwise"):
    return entry[0]
  if role == "bias":
    return entry[1]
  if role == "recurrent":
    return entry[2]
  return entry[-1]


CFG_KEYS = {"kernel": ("kernel",), "bias": ("bias",), "activation": ("activation",), "linear": ("linear",),
            "recurrent_activation": ("recurrent_activation",), "recurrent": ("recurrent_kernel", "kernel"),
            "pointwise": ("pointwise_kernel", "kernel")}
SUFFIX = {"kernel": "kernel", "bias": "bias", "activation": "activation", "linear": "activation",
          "recurrent": "recurrent_kernel", "pointwise": "pointwise_kernel",
          "recurrent_activation": "recurrent_activation"}
GROUP_FIELDS = {"kernel": ["kernel"], "bias": ["bias"], "activation": ["activation"], "linear": ["linear"],
                "recurrent": ["recurrent_kernel", "kernel"], "pointwise": ["pointwise_kernel", "kernel"],
                "recurrent_activation": ["recurrent_activation"]}


def admissible(cfg, role, lim):
  """(weak set, strict set, bits by string) of configuration strings admissible for a role under a limit."""
  dicts = [cfg[k] for k in CFG_KEYS[role] if k in cfg]
  bits = {}
  for d in reversed(dicts):
    bits.update(d)
  strict_src = dicts[0] if dicts else {}
  if isinstance(lim, list):
    weak = [k for k in lim if k in bits]
    strict = [k for k in lim if k in strict_src]
  else:
    weak = [k for k, b in bits.items() if b <= lim]
    strict = [k for k, b in strict_src.items() if b <= lim]
  return weak, strict, bits


def plan(scn):
  """Per layer of the reference model (index 0 = InputLayer): what the statement allows."""
  limit = scn["limit"] or {}
  cfg = cfg_of(scn)
  out = [{"name": "inp", "cls": "InputLayer", "quantize": False, "roles": {}, "selected": False,
          "marked": False, "tunable": False, "key": None, "grouped": False}]
  exc = scn.get("exc")
  for i, ls in enumerate(scn["model"]["layers"]):
    idx = i + 1
    selected = scn["layer_indexes"] is None or idx in scn["layer_indexes"]
    key, grouped = resolve_entry(limit, ls["name"], ls["cls"])
    roles = {}
    if selected and key is not None:
      for role in roles_of(ls):
        if not any(k in cfg for k in CFG_KEYS[role]):
          continue          # the configuration names no quantizers for this role: nothing to choose from
        lim = limit_value(limit, key, grouped, ls["cls"], role)
        weak, strict, bits = admissible(cfg, role, lim)
        if grouped:
          names = ["%s_%s_quantizer" % (key, f) for f in GROUP_FIELDS[role]]
        else:
          names = ["%s_%s_quantizer" % (ls["name"], SUFFIX[role])]
        roles[role] = {"limit": lim, "allowed": weak, "allowed_strict": strict, "bits": bits, "names": names}
    quantize = bool(roles) and (ls["cls"] in WEIGHT or ls["cls"] == "Activation")
    tunable = (quantize and scn["tune"] in ("layer", "block") and ls["cls"] in TUNABLE and
               not (exc is not None and re.search(exc, ls["name"])))
    out.append({"name": ls["name"], "cls": ls["cls"], "quantize": quantize, "roles": roles, "selected": selected,
                "marked": selected and key is not None, "tunable": tunable, "key": key, "grouped": grouped,
                "spec": ls})
  return out


def predicted_leaves(scn):
  seen, n = {}, 1
  for p in plan(scn):
    for role, r in p["roles"].items():
      name = r["names"][-1] if role in ("recurrent", "pointwise") and p["grouped"] else r["names"][0]
      if name not in seen:
        seen[name] = max(1, len(r["allowed"]))
    if p["tunable"]:
      seen["network_filters" + ("" if scn["tune"] == "block" else "_" + p["name"])] = len(FILTER_RANGE)
  for v in seen.values():
    n *= v
  return n


def domain_ok(scn):
  for p in plan(scn):
    for r in p["roles"].values():
      if not r["allowed"]:
        return False
  return True


# ----------------------------------------------------------------------------- scenario generator
BITS = [1, 2, 3, 4, 5, 6, 8, 16]


def _lim3(rnd, rnn=False):
  v = [rnd.choice(BITS[1:]), rnd.choice(BITS[2:]), rnd.choice(BITS[1:])]
  if rnn:
    v = [v[0], v[1], rnd.choice(BITS[1:]), v[2]]
  return v


def scenario_templates(rnd):
  """(sid, builder) pairs; a builder draws one scenario (limits / config) from `rnd`."""
  def base(model, limit, cfg="small", tune="none", exc="^$", layer_indexes=None, mode="exhaustive", **kw):
    d = {"model_name": model, "limit": limit, "cfg": cfg, "tune": tune, "exc": exc,
         "layer_indexes": layer_indexes, "mode": mode}
    d.update(kw)
    return d

  T = []
  T.append(("class.mlp_inline", lambda r: base("mlp_inline", {"Dense": _lim3(r), "Activation": [r.choice(BITS[1:])]})))
  T.append(("default_padding.mlp_inline", lambda r: base(
      "mlp_inline", {"Dense": [r.choice(BITS[1:])], "default": r.choice([3, 4, 6, [4, 6, 3]])},
      layer_indexes=r.choice([[1, 2, 3], [1, 3, 4, 5], [2, 4]]))))
  T.append(("pattern_group.mlp_branch", lambda r: base(
      "mlp_branch", {"^b0_": _lim3(r), "Dense": _lim3(r), "Activation": [r.choice(BITS[1:])]})))
  T.append(("allow_lists.mlp_branch", lambda r: base("mlp_branch", "ALLOW_LISTS")))
  T.append(("class.conv", lambda r: base(
      "conv", {"Conv2D": _lim3(r), "DepthwiseConv2D": _lim3(r), "Dense": _lim3(r), "Activation": [r.choice(BITS[1:])]})))
  T.append(("pattern_and_indexes.conv", lambda r: base(
      "conv", {"^c\\d$": _lim3(r), "DepthwiseConv2D": _lim3(r), "Dense": _lim3(r), "Activation": [r.choice(BITS[1:])],
               "Flatten": []},
      layer_indexes=r.choice([[1, 2, 3], [1, 4, 6], [2, 3, 4, 7]]))))
  T.append(("class.conv1d", lambda r: base(
      "conv1d", {"Conv1D": _lim3(r), "Activation": [r.choice(BITS[1:])], "default": r.choice([4, 8])})))
  T.append(("separable.sep", lambda r: base(
      "sep", {"SeparableConv2D": _lim3(r), "Conv2D": _lim3(r), "Dense": _lim3(r)})))
  T.append(("recurrent.rnn2", lambda r: base(
      "rnn2", {"SimpleRNN": _lim3(r, True), "Dense": _lim3(r)}, recurrent_below_kernel=True)))
  T.append(("recurrent.lstm", lambda r: base(
      "lstm", {"LSTM": _lim3(r, True), "Dense": _lim3(r), "Activation": [r.choice(BITS[2:])]})))
  T.append(("recurrent_pattern.rnn_dense", lambda r: base(
      "rnn_dense", {"^r\\d": _lim3(r, True), "Dense": _lim3(r)})))
  T.append(("library_default.lstm", lambda r: base(
      "lstm", {"LSTM": [4, 8, 4, 8], "Dense": [4, 8, 8]}, cfg="library_default", mode="sampled")))
  T.append(("pattern_group_linear.group", lambda r: base(
      "group", {"^b0_": _lim3(r), "^b1_": _lim3(r), "Dense": _lim3(r)})))
  T.append(("pattern_precedence.group", lambda r: base(
      "group", {"^b0_d": [r.choice([2, 3]), 8, 8], "^b": [r.choice([6, 8]), r.choice([3, 4]), r.choice(BITS[1:])],
                "Dense": _lim3(r), "Activation": [r.choice(BITS[1:])]})))
  T.append(("batchnorm_marked.bn", lambda r: base(
      "bn", {"Conv2D": _lim3(r), "BatchNormalization": [], "Activation": [r.choice(BITS[1:])], "Dense": _lim3(r)})))
  T.append(("batchnorm_unmarked.bn", lambda r: base(
      "bn", {"Conv2D": _lim3(r), "^a\\d$": _lim3(r), "^mp$": []})))
  T.append(("tune_layer_tail.mlp_tail", lambda r: base(
      "mlp_tail", {"Dense": _lim3(r), "Activation": [r.choice(BITS[1:])]}, tune="layer", exc="^d\\d$", lean=True)))
  T.append(("tune_block_tail.conv_tail", lambda r: base(
      "conv_tail", {"Conv2D": _lim3(r), "Activation": [r.choice(BITS[1:])]}, tune="block", exc="c0", lean=True)))
  T.append(("tune_block_only_selected.mlp_tail", lambda r: base(
      "mlp_tail", {"Dense": _lim3(r)}, tune="block", exc="^tail$", layer_indexes=[1], lean=True)))
  T.append(("tune_block_chain.mlp_inline", lambda r: base(
      "mlp_inline", {"Dense": _lim3(r), "Activation": [r.choice(BITS[1:])]}, tune="block", exc="^d2$", lean=True)))
  T.append(("tune_layer_chain.conv", lambda r: base(
      "conv", {"Conv2D": _lim3(r), "DepthwiseConv2D": _lim3(r), "Dense": _lim3(r)}, tune="layer", exc="^(out|c1)$",
      lean=True)))
  T.append(("ctor_default_exceptions.mlp_inline", lambda r: base(
      "mlp_inline", {"Dense": _lim3(r)}, exc=None)))
  T.append(("limit_at_minimum.mlp_inline", lambda r: base("mlp_inline", "AT_MINIMUM")))
  T.append(("limit_at_minimum.conv", lambda r: base("conv", "AT_MINIMUM")))
  T.append(("no_limit.mlp_branch", lambda r: base("mlp_branch", r.choice([None, {}, {"default": 4}]))))
  T.append(("library_default.mlp_inline", lambda r: base(
      "mlp_inline", {"Dense": [r.choice([4, 8]), 8, r.choice([4, 8, 16])], "Activation": [r.choice([3, 4, 8])]},
      cfg="library_default", mode="sampled")))
  T.append(("library_default.conv", lambda r: base(
      "conv", {"^c\\d$": [r.choice([2, 4]), 8, r.choice([4, 8])], "DepthwiseConv2D": [4, 4, 4], "Dense": [8, 8, 8],
               "Activation": [r.choice([2, 4, 16])], "default": 8},
      cfg="library_default", mode="sampled")))
  T.append(("library_default.rnn2", lambda r: base(
      "rnn2", {"SimpleRNN": [r.choice([2, 4]), 8, r.choice([1, 2, 4]), 8], "Dense": [8, 4, 8]},
      cfg="library_default", mode="sampled")))
  return T


def _finish(scn, rnd, tier):
  """Fills in config-dependent parts and redraws until the scenario lies in the domain and its
  predicted number of leaves fits the tier's cap."""
  scn = dict(scn)
  scn["model"] = MODELS[scn.pop("model_name")]
  if scn["cfg"] == "small":
    scn["cfg"] = small_cfg(rnd, 2)
  cfg = cfg_of(scn)
  if scn["limit"] == "AT_MINIMUM":
    lo = {k: min(v.values()) for k, v in cfg.items()}
    three = [lo["kernel"], lo["bias"], lo["activation"]]
    scn["limit"] = {"Dense": list(three), "Conv2D": list(three), "DepthwiseConv2D": list(three),
                    "Activation": [lo["activation"]]}
  elif scn["limit"] == "ALLOW_LISTS":
    ks = list(cfg["kernel"])
    acts = list(cfg["activation"])
    scn["limit"] = {"Dense": [rnd.sample(ks, min(2, len(ks))), rnd.choice([4, 8]), [rnd.choice(acts)]],
                    "Activation": [rnd.sample(acts, min(2, len(acts)))]}
  if scn.get("lean"):       # filter-tuning scenarios: only the kernels (and the filter factors) are real choices
    lo = {k: min(v.values()) for k, v in cfg.items()}
    for key, e in scn["limit"].items():
      if key == "Activation":
        e[0] = lo["activation"]
      elif isinstance(e, list) and len(e) == 3:
        e[1], e[2] = lo["bias"], lo["activation"]
  if scn.get("recurrent_below_kernel"):     # the recurrent limit is the tighter one (documented 3rd entry)
    e = scn["limit"]["SimpleRNN"]
    rk = sorted(set(cfg.get("recurrent_kernel", cfg["kernel"]).values()) | set(cfg["kernel"].values()))
    e[2] = rk[0]
    e[0] = max(e[0], rk[-1])
  scn["ff"] = {"delta_p": rnd.choice([1.0, 8.0]), "delta_n": rnd.choice([2.0, 8.0]), "rate": rnd.choice([2.0, 4.0]),
               "ref_bits": rnd.choice([8, 8, 6, 16]), "input_bits": rnd.choice([8, 4]),
               "size_config": rnd.choice([{"default": ["parameters", "activations"]},
                                          {"default": ["parameters", "activations"]},
                                          {"default": ["parameters"], "QActivation": ["activations"],
                                           "Activation": ["activations"]}])}
  scn["activation_bits"] = rnd.choice([4, 4, 5])
  return scn


def make_scenarios(tier, seed):
  rnd = random.Random(seed * 7919 + 20)
  reps = 1 if tier == "quick" else 4
  cap = LEAF_CAP[tier]
  out = []
  for rep in range(reps):
    for sid, builder in scenario_templates(rnd):
      scn = None
      for attempt in range(200):
        cand = _finish(builder(rnd), rnd, tier)
        if not domain_ok(cand):
          continue
        n = predicted_leaves(cand)
        lean_cap = 40 if cand.get("lean") else cap
        if cand["mode"] == "exhaustive" and n > lean_cap:
          continue
        scn = cand
        break
      if scn is None:
        raise RuntimeError("generator could not place scenario %s inside the domain" % sid)
      scn["sid"] = "%s#%d" % (sid, rep)
      scn["predicted_leaves"] = predicted_leaves(scn)
      scn["extra_random"] = 6 if tier == "quick" else 64
      scn["max_pairwise"] = 40 if tier == "quick" else None
      out.append(scn)
  return out


def cases(tier, seed):
  out = []
  per_shard = 24 if tier == "quick" else 48
  for scn in make_scenarios(tier, seed):
    est = scn["predicted_leaves"] if scn["mode"] == "exhaustive" else (46 if tier == "quick" else 150)
    k = max(1, min(16, int(math.ceil(est / float(per_shard)))))
    for s in range(k):
      out.append({"part": "hp", "scn": scn, "shard": s, "nshards": k})
  n_delta = 8 if tier == "quick" else 32
  for j in range(n_delta):
    out.append({"part": "delta", "chunk": j, "nchunks": n_delta})
  # longest first, interleaved over the workers
  out.sort(key=lambda c: -(c["scn"]["predicted_leaves"] / float(c["nshards"]) if c["part"] == "hp" else 1))
  for i, c in enumerate(out):
    c["idx"], c["seed"] = i, seed
  return out
