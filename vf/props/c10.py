"""C10 - quantizer strings parse as the equivalent Python call; str(q) re-parses to q."""
import ast
import inspect
import json
import math
import os
import random

import numpy as np

from vf.gen import qlattice, text as gtext

PID = "C10"
RULE = ("part A1: batches of generated call strings over the literal grammar (ints, signed/scientific "
        "floats, booleans, None, quoted strings, number lists, random whitespace, positional/keyword mixes; at "
        "most one separator-carrying literal per call) parsed by safe_eval into a recording stub and compared, "
        "value and type, with ast.literal_eval of the same expression; misordered calls must raise SyntaxError. "
        "A2: the same for the 14 registered quantizers built from lattice options written as Python call "
        "strings (positional/keyword split at random) vs the class called with the literal arguments. "
        "A3: hostile payload strings parsed under sys.addaudithook with a file canary. part B: every "
        "instance of the C09 option lattice is printed with str(), re-parsed with get_quantizer and compared "
        "functionally (outputs+scale on 6 probe tensors); consumers get_quantization_config / "
        "get_quantization_dictionary re-parsed likewise. Non-trivial = distinct strings / instances.")
ANCHORS = [("qkeras/safe_eval.py", 29, 166), ("qkeras/quantizers.py", 3311, 3312),
           ("qkeras/quantizers.py", 1134, 1153), ("qkeras/quantizers.py", 1299, 1318),
           ("qkeras/quantizers.py", 1574, 1585), ("qkeras/quantizers.py", 1682, 1697),
           ("qkeras/quantizers.py", 1843, 1858), ("qkeras/quantizers.py", 2026, 2056),
           ("qkeras/quantizers.py", 2184, 2195), ("qkeras/quantizers.py", 2343, 2358),
           ("qkeras/quantizers.py", 2507, 2513), ("qkeras/quantizers.py", 2587, 2595),
           ("qkeras/quantizers.py", 2653, 2661), ("qkeras/quantizers.py", 2873, 2882),
           ("qkeras/quantizers.py", 3017, 3028), ("qkeras/quantizers.py", 3202, 3235),
           ("qkeras/qlayers.py", 203, 204), ("qkeras/qlayers.py", 711, 720), ("qkeras/autoqkeras/utils.py", 68, 77)]
ASSUMPTIONS = [
    "the audit hook sees CPython-level events (exec, compile, os.system, subprocess, open, import); native side effects are out of reach",
    "options that cannot change forward outputs (var_name, use_variables, use_ste) are observed, not enforced, in the str() direction",
    "tuples, hex and underscore integers are outside the statement's literal list (observed only)",
]
TIMEOUT = {"quick": 900, "thorough": 3000}
STATEMENT_EXT = ["list_commas", "list_commas_space", "list_single", "string_with_comma", "string_with_space",
                 "string_with_paren", "empty_string", "string_with_equals"]
OBSERVE_EXT = ["tuple", "hex_int", "underscore_int"]
NONFUNCTIONAL = ("var_name", "use_variables", "use_ste")


def thresholds(tier):
  return {"A1.strings": 5000, "A1.misordered": 300, "A2.strings": 300, "A3.payloads": 100,
          "A3.audit_events_seen": 1, "B.instances": 250, "B.reparsed": 150, "consumer_strings": 20,
          "distinct_nontrivial": 4000}


def cases(tier, seed):
  out = []
  nb = 40 if tier == "quick" else 400
  for i in range(nb):
    out.append({"part": "A1", "batch": i, "n": 400})
  for i in range(16 if tier == "quick" else 64):
    out.append({"part": "A3", "batch": i})
  inst = qlattice.instances(tier, seed)
  for c in inst:
    d = dict(c)
    d["part"] = "B"
    out.append(d)
  for c in inst[::2 if tier == "quick" else 1]:
    d = dict(c)
    d["part"] = "A2"
    out.append(d)
  for i, cls in enumerate(sorted(qlattice.DOMAIN)):
    out.append({"part": "consumer", "cls": cls})
  random.Random(seed + 3).shuffle(out)
  for i, c in enumerate(out):
    c["idx"], c["seed"] = i, seed
  return out


# ------------------------------------------------------------------ helpers
def py_args(textcall):
  """(args, kwargs) that Python gives for the call expression (literals only)."""
  node = ast.parse(textcall.strip(), mode="eval").body
  assert isinstance(node, ast.Call)
  args = [ast.literal_eval(a) for a in node.args]
  kwargs = {k.arg: ast.literal_eval(k.value) for k in node.keywords}
  return args, kwargs


def same(a, b):
  if type(a) is not type(b):
    return False
  if isinstance(a, float):
    return repr(a) == repr(b)
  if isinstance(a, (list, tuple)):
    return len(a) == len(b) and all(same(x, y) for x, y in zip(a, b))
  return a == b


class Recorder(object):
  def __init__(self):
    self.calls = []

  def __call__(self, *args, **kwargs):
    self.calls.append((list(args), dict(kwargs)))
    return self


def run_a1(case, ctx):
  from qkeras.safe_eval import safe_eval
  rnd = random.Random(case["seed"] * 1009 + case["batch"])
  for j in range(case["n"]):
    ext = None
    kinds = list(gtext.CORE)
    r = rnd.random()
    if r < 0.25:
      ext = rnd.choice(STATEMENT_EXT)
    elif r < 0.30:
      ext = rnd.choice(OBSERVE_EXT)
    txt, meta = gtext.call_string(rnd, kinds)
    if ext:
      # splice exactly one separator-carrying literal in (positional or keyword)
      lit = gtext.literal(ext, rnd)
      if rnd.random() < 0.5 or not meta or any(k for _, k in meta):
        txt = txt[:-1] + ("," if meta else "") + "zz=" + lit + ")"
        meta = meta + [(ext, True)]
      else:
        txt = "stub(" + lit + ("," if meta else "") + txt[len("stub("):]
        meta = [(ext, False)] + meta
    ctx.count("A1.strings")
    ctx.evals(1)
    ctx.nontrivial("A1", txt)
    try:
      want = py_args(txt)
    except Exception:  # pylint: disable=broad-except
      ctx.skip("python_itself_rejects")
      continue
    rec = Recorder()
    sig = {"part": "A", "literal": ext or "core"}
    try:
      safe_eval(txt, {"stub": rec})
    except Exception as e:  # pylint: disable=broad-except
      kind = "rejects_valid_call"
      if ext in OBSERVE_EXT:
        ctx.observe("outside_statement_literal:" + ext, txt)
        continue
      ctx.violation(dict(sig, kind=kind, exc=type(e).__name__), "%s -> %s: %s" % (txt, type(e).__name__, str(e)[:120]), {"text": txt})
      continue
    if len(rec.calls) != 1 and ext in OBSERVE_EXT:
      ctx.observe("outside_statement_literal:" + ext, txt)
      continue
    if len(rec.calls) != 1:
      ctx.violation(dict(sig, kind="constructor_not_called_once"), "%s -> %d calls" % (txt, len(rec.calls)), {"text": txt})
      continue
    got = rec.calls[0]
    okk = len(got[0]) == len(want[0]) and all(same(a, b) for a, b in zip(got[0], want[0])) and \
        set(got[1]) == set(want[1]) and all(same(got[1][k], want[1][k]) for k in want[1])
    if not okk:
      if ext in OBSERVE_EXT:
        ctx.observe("outside_statement_literal:" + ext, txt)
        continue
      # attribute to the literal class of the first differing argument
      cls_bad = ext or "core"
      if not ext:
        for i, (a, b) in enumerate(zip(got[0], want[0])):
          if not same(a, b):
            cls_bad = [m for m in meta if not m[1]][i][0]
            break
        else:
          for k in want[1]:
            if k not in got[1] or not same(got[1][k], want[1][k]):
              kw_meta = [m for m in meta if m[1]]
              cls_bad = kw_meta[list(want[1]).index(k)][0] if len(kw_meta) == len(want[1]) else "core"
              break
      ctx.violation({"part": "A", "kind": "arguments_differ_from_python", "literal": cls_bad},
                    "%s -> args=%r kwargs=%r, Python gives args=%r kwargs=%r" % (txt, got[0], got[1], want[0], want[1]),
                    {"text": txt})
      continue
    # ---- history independence: the same text parsed again after (a) a parse of the same text with extra
    # positional / keyword parameters (safe_eval's own *params / **kwparams interface) and (b) in-place
    # modification of what the first parse handed to the constructor must give the same arguments again
    try:
      rec2 = Recorder()
      safe_eval(txt, {"stub": rec2}, 7, zz_extra="x")
      for v in list(got[0]) + list(got[1].values()):
        if isinstance(v, list):
          v.append(99)
      got[0].append("injected")
      got[1]["zz_injected"] = 1
      rec3 = Recorder()
      safe_eval(txt, {"stub": rec3})
    except Exception as e:  # pylint: disable=broad-except
      ctx.violation({"part": "A", "kind": "reparse_raises", "exc": type(e).__name__}, "%s: %s" % (txt, str(e)[:120]), {"text": txt})
      continue
    ctx.count("A1.reparsed_after_interference")
    g2, g3 = rec2.calls[0], rec3.calls[0]
    ok2 = len(g2[0]) == len(want[0]) + 1 and all(same(a, b) for a, b in zip(g2[0], want[0] + [7])) and \
        set(g2[1]) == set(want[1]) | {"zz_extra"} and all(same(g2[1][k], want[1][k]) for k in want[1])
    ok3 = len(g3[0]) == len(want[0]) and all(same(a, b) for a, b in zip(g3[0], want[0])) and \
        set(g3[1]) == set(want[1]) and all(same(g3[1][k], want[1][k]) for k in want[1])
    if not ok2:
      ctx.violation({"part": "A", "kind": "extra_parameters_not_appended"},
                    "%s with extra (7, zz_extra='x') -> args=%r kwargs=%r" % (txt, g2[0], g2[1]), {"text": txt})
    if not ok3:
      ctx.violation({"part": "A", "kind": "parse_depends_on_history"},
                    "%s parsed again after an extra-parameter parse and in-place edits -> args=%r kwargs=%r, Python gives %r %r" % (
                        txt, g3[0], g3[1], want[0], want[1]), {"text": txt})
  # ---- the library's own number-list form (blank-separated, keyword position): one and two lists per call
  for j in range(12):
    n_lists = 1 + (j % 2)
    items, want_kw = [], {}
    pos = [str(rnd.randint(0, 9))] if rnd.random() < 0.5 else []
    names = ["scale_axis", "elements_per_scale", "zz", "a"]
    rnd.shuffle(names)
    for li in range(n_lists):
      vals = [rnd.randint(0, 4) for _ in range(rnd.randint(2, 3))]
      items.append((names[li], "[" + " ".join(str(v) for v in vals) + "]"))
      want_kw[names[li]] = vals
    if rnd.random() < 0.7:
      v = round(rnd.uniform(0, 4), 2)
      items.insert(rnd.randint(0, len(items)), ("b", repr(v)))
      want_kw["b"] = v
    txt = "stub(" + ",".join(pos + ["%s=%s" % kv for kv in items]) + ")"
    ctx.count("A1.space_list_strings")
    ctx.evals(1)
    rec = Recorder()
    try:
      safe_eval(txt, {"stub": rec})
      got = rec.calls[0]
    except Exception as e:  # pylint: disable=broad-except
      ctx.violation({"part": "A", "kind": "rejects_valid_call", "literal": "space_list", "exc": type(e).__name__},
                    "%s -> %s: %s" % (txt, type(e).__name__, str(e)[:100]), {"text": txt})
      continue
    okk = [int(p_) for p_ in pos] == got[0] and set(got[1]) == set(want_kw) and all(same(got[1][k], want_kw[k]) for k in want_kw)
    if not okk:
      ctx.violation({"part": "A", "kind": "arguments_differ_from_python", "literal": "space_list_x%d" % n_lists},
                    "%s -> args=%r kwargs=%r, expected args=%r kwargs=%r" % (txt, got[0], got[1], [int(p_) for p_ in pos], want_kw),
                    {"text": txt})
  # malformed order must be rejected
  for j in range(20):
    txt = gtext.misordered(rnd, gtext.CORE)
    ctx.count("A1.misordered")
    rec = Recorder()
    try:
      safe_eval(txt, {"stub": rec})
      ctx.violation({"part": "A", "kind": "positional_after_keyword_accepted"}, "%s -> %r" % (txt, rec.calls), {"text": txt})
    except SyntaxError:
      pass
    except Exception as e:  # pylint: disable=broad-except
      ctx.violation({"part": "A", "kind": "positional_after_keyword_wrong_exception", "exc": type(e).__name__},
                    "%s -> %s" % (txt, type(e).__name__), {"text": txt})
  ctx.sample({"part": "A1", "example_string": txt})


def py_repr(v):
  if isinstance(v, bool) or v is None or isinstance(v, (int, str)):
    return repr(v)
  if isinstance(v, float):
    return repr(v)
  raise TypeError(v)


def run_a2(case, ctx):
  from vf import qenv, qcompare
  from qkeras import quantizers as Q
  cls = case["cls"]
  kw = {k: v for k, v in case["kw"].items() if not isinstance(v, (list, tuple)) and v not in qlattice.PLACEHOLDERS}
  if not qlattice.valid(cls, kw):
    return
  rnd = random.Random(case["seed"] * 31 + case["idx"])
  klass = qenv.get_class(cls)
  order = qcompare.ctor_params(klass)
  # positional prefix of random length (must be a prefix of the constructor order without gaps)
  npos = 0
  for p in order:
    if p in kw and rnd.random() < 0.6:
      npos += 1
    else:
      break
  pos = order[:npos]
  parts = [py_repr(kw[p]) for p in pos] + ["%s=%s" % (k, py_repr(v)) for k, v in kw.items() if k not in pos]
  txt = cls + "(" + ", ".join(parts) + ")" if rnd.random() < 0.5 else cls + "(" + ",".join(parts) + ")"
  sig = {"part": "A", "cls": cls}
  ctx.count("A2.strings")
  ctx.evals(1)
  ctx.nontrivial("A2", txt)
  try:
    q_ref = klass(**kw)
  except Exception:  # pylint: disable=broad-except
    ctx.skip("A2_reference_constructor_rejects")
    return
  ok, q = ctx.call(dict(sig, op="get_quantizer"), Q.get_quantizer, txt)
  if not ok:
    return
  if type(q) is not klass:
    ctx.violation(dict(sig, kind="text_builds_other_object"), "%s -> %r" % (txt, type(q).__name__), {"text": txt})
    return
  lost = qcompare.differing_options(q_ref, q)
  if lost:
    for o in lost:
      ctx.violation(dict(sig, kind="text_argument_not_applied", option=o),
                    "%s: option %s = %r, Python call gives %r" % (txt, o, qcompare.attr(q, o)[1], qcompare.attr(q_ref, o)[1]),
                    {"text": txt})
  ctx.sample({"part": "A2", "text": txt})


def run_a3(case, ctx):
  from vf.monitors import audit
  from qkeras import quantizers as Q
  import tempfile
  rnd = random.Random(case["seed"] * 77 + case["batch"])
  d = tempfile.mkdtemp(prefix="vf-canary-", dir=os.environ.get("VERIF_WORKDIR") or "/var/tmp")
  try:
    for tmpl in gtext.HOSTILE:
      marker = "VFMARK%08x" % rnd.getrandbits(32)
      canary = os.path.join(d, "canary_%s" % marker)
      txt = tmpl.format(M=marker, C=canary)
      ctx.count("A3.payloads")
      ctx.evals(1)
      ctx.nontrivial("A3", tmpl)
      before = audit.STATE["seen"]
      with audit.armed(marker, canary) as events:
        try:
          Q.get_quantizer(txt)
          outcome = "returned"
        except BaseException as e:  # pylint: disable=broad-except
          outcome = type(e).__name__
        evs = list(events)
      ctx.count("A3.audit_events_seen", audit.STATE["seen"] - before)
      ctx.seen("A3.outcomes", outcome)
      if evs or os.path.exists(canary):
        ctx.violation({"part": "A", "kind": "text_executed_as_code"},
                      "%s -> audit events %r, canary written: %s" % (txt, evs[:3], os.path.exists(canary)), {"text": txt})
    # the monitor itself must be alive: a positive control executed by the harness, not the library
    marker = "VFMARKCONTROL"
    canary = os.path.join(d, "control")
    with audit.armed(marker, canary) as events:
      exec(compile("x = '%s'" % marker, "<control>", "exec"), {})  # pylint: disable=exec-used
      open(canary, "w").close()
      got = list(events)
    if not got:
      raise RuntimeError("audit monitor did not see the positive control")
    ctx.count("A3.positive_controls_seen")
  finally:
    import shutil
    shutil.rmtree(d, ignore_errors=True)


def run_b(case, ctx):
  from vf import qenv, qcompare
  from vf.props import c09
  from vf.monitors import rng as rngmod
  import tensorflow.keras.backend as K
  from qkeras import quantizers as Q
  cls = case["cls"]
  K.set_learning_phase(0)
  if case["kw"].get("alpha") in (qlattice.ARR_COL, qlattice.ARR_ROW):
    # a tensor-valued alpha prints as a numpy array (brackets, blanks, line breaks): outside the literal
    # grammar of the statement; C09 covers its configuration round trip
    ctx.observe("out_of_statement:array_alpha_text_form", {"cls": cls})
    ctx.skip("B_array_alpha_observation_only")
    return
  with rngmod.controlled() as stream:
    stream.set_grid(23, 64)
    try:
      q, kw = c09.realise(case, qenv)
    except Exception:  # pylint: disable=broad-except
      ctx.skip("B_constructor_rejects")
      return
    ctx.count("B.instances")
    ctx.evals(1)
    ctx.nontrivial("B", cls, sorted((k, str(v)) for k, v in case["kw"].items()))
    sig = {"part": "B", "cls": cls}
    try:
      s = str(q)
    except Exception as e:  # pylint: disable=broad-except
      ctx.violation(dict(sig, kind="str_raises", exc=type(e).__name__, options=",".join(sorted(case["kw"])) if len(case["kw"]) <= 1 else "pair"),
                    "str(%s(%s)) raises %s: %s" % (cls, case["kw"], type(e).__name__, str(e)[:100]), None)
      return
    try:
      q2 = Q.get_quantizer(s)
    except Exception as e:  # pylint: disable=broad-except
      bad = [k for k, v in case["kw"].items() if isinstance(v, (list, tuple, np.ndarray))] or ["other"]
      ctx.violation(dict(sig, kind="printed_text_unparsable", exc=type(e).__name__, option=bad[0]),
                    "%r -> %s: %s" % (s, type(e).__name__, str(e)[:100]), {"text": s})
      return
    ctx.count("B.reparsed")
    if type(q2) is not type(q):
      ctx.violation(dict(sig, kind="printed_text_builds_other_object"), "%r -> %s" % (s, type(q2).__name__), {"text": s})
      return
    res = qcompare.compare(q, q2, qenv.call, qenv.as_np, case["seed"])
    if res["kind"] is None and (cls.startswith("stochastic_") or cls == "bernoulli" or getattr(q, "use_stochastic_rounding", False)):
      # "the same function" includes the training phase of the stochastic classes: same (constant) draw for both
      K.set_learning_phase(1)
      try:
        stream.set_const(0.37)
        res_t = qcompare.compare(q, q2, qenv.call, qenv.as_np, case["seed"])
      finally:
        K.set_learning_phase(0)
        stream.set_grid(23, 64)
      ctx.count("B.training_phase_compared")
      if res_t["kind"] is not None:
        res = dict(res_t, detail="training phase, every draw 0.37: " + str(res_t.get("detail")))
    lost = [o for o in qcompare.differing_options(q, q2)]
    func = [o for o in lost if o not in NONFUNCTIONAL]
    if res["kind"] is None:
      for o in lost:
        ctx.observe("B.option_not_restored_without_output_change:%s.%s" % (cls, o), s)
      return
    if not func:
      ctx.violation(dict(sig, kind=res["kind"], option="none"), "%r: %s" % (s, res["detail"]), {"text": s, "kw": str(kw)})
      return
    defaults = {p: v.default for p, v in inspect.signature(type(q).__init__).parameters.items() if p != "self"}
    for o in func:
      orig = qcompare.attr(q, o)[1]
      spurious = qcompare._norm(orig) == qcompare._norm(defaults.get(o)) or (o not in case["kw"] and o not in kw)
      ctx.violation(dict(sig, kind="option_spuriously_set_by_printed_text" if spurious else "option_not_restored_from_printed_text", option=o),
                    "%s(%s) prints %r; re-parsed %s = %r (was %r): %s" % (cls, case["kw"], s, o, qcompare.attr(q2, o)[1], orig, res["detail"]),
                    {"text": s})
    ctx.sample({"part": "B", "kw": {k: str(v) for k, v in kw.items()}, "printed": s})


def run_consumer(case, ctx):
  from vf import qenv
  import tensorflow as tf
  from qkeras import QActivation, QDense
  from qkeras import quantizers as Q
  from qkeras.autoqkeras.utils import get_quantization_dictionary
  cls = case["cls"]
  if cls in ("bernoulli",):
    return
  q = qenv.get_class(cls)()
  act_ok = cls not in ("binary", "ternary", "stochastic_binary", "stochastic_ternary") or True
  i = tf.keras.layers.Input((4,))
  layers = [QActivation(qenv.get_class(cls)(), name="act")]
  if cls in ("quantized_bits", "quantized_linear", "quantized_po2", "binary", "ternary", "stochastic_binary", "stochastic_ternary"):
    layers.append(QDense(3, kernel_quantizer=qenv.get_class(cls)(), bias_quantizer=qenv.get_class(cls)(), name="dense"))
  x = i
  sig = {"part": "consumer", "cls": cls}
  try:
    for l in layers:
      x = l(x)
    model = tf.keras.Model(i, x)
  except Exception:  # pylint: disable=broad-except
    ctx.skip("consumer_model_not_buildable")
    return
  ok, d = ctx.call(sig, get_quantization_dictionary, model)
  if not ok:
    return
  for lname, entry in d.items():
    items = {"activation": entry} if isinstance(entry, str) else entry
    for role, s in items.items():
      if role == "units" or s in ("None", "linear") or s.startswith("<"):
        continue
      ctx.count("consumer_strings")
      layer = model.get_layer(lname)
      src = {"activation": getattr(layer, "activation", None), "kernel_quantizer": getattr(layer, "kernel_quantizer_internal", None),
             "bias_quantizer": getattr(layer, "bias_quantizer_internal", None)}.get(role)
      if src is None:
        continue
      if s != str(src):
        ctx.violation(dict(sig, kind="consumer_string_differs_from_str", role=role), "%s.%s: %r vs %r" % (lname, role, s, str(src)), None)
      ok, q2 = ctx.call(dict(sig, role=role), Q.get_quantizer, s)
      if ok and type(q2) is not type(src):
        ctx.violation(dict(sig, kind="consumer_string_builds_other_object", role=role), "%r -> %s" % (s, type(q2).__name__), None)


def run_case(case, ctx):
  {"A1": run_a1, "A2": run_a2, "A3": run_a3, "B": run_b, "consumer": run_consumer}[case["part"]](case, ctx)
