"""C02 - fixed-point quantization is the nearest-code projection."""
import numpy as np

from vf.gen import lattice
from vf.props import c01
from vf.ref import fixed

PID = "C02"
RULE = ("one case = one configuration of the C01 lattice; the probe set (every code and "
        "every rounding breakpoint +-1/+-2 ulp, saturation edges, zeros, denormals, "
        "large magnitudes, random tensors rank 1..4) is compared element-wise with the "
        "exact dyadic reference e = clip(s(x)/step, lo, hi): |code - e| <= 1/2 (+ a "
        "few float32 ulps for tanh/sigmoid surrogates), outputs non-decreasing on the "
        "sorted probes, q(q(x)) == q(x) for linear / plain-ReLU formats. Non-trivial = "
        "distinct (configuration, input) pairs, all of which sit within 2 ulp of a "
        "breakpoint/code or beyond a saturation edge (hashed).")
ANCHORS = [("qkeras/quantizers.py", 616, 648), ("qkeras/quantizers.py", 998, 1019),
           ("qkeras/quantizers.py", 1433, 1452), ("qkeras/quantizers.py", 2397, 2408)]
ASSUMPTIONS = c01.ASSUMPTIONS + [
    "ties may round either way; tanh/sigmoid surrogates get 8 float32 ulps of slack",
    "constant alpha of quantized_bits is read as an output scale (codes are compared "
    "with the unscaled input), of quantized_linear as an input+output scale",
]
KERAS3_PASS = True
TIMEOUT = {"quick": 600, "thorough": 3000}


def thresholds(tier):
  return {"nearest_checked": 1500, "monotone_checked": 1500, "idempotence_checked": 800,
          "distinct_nontrivial": 50000}


def cases(tier, seed, keras3=False):
  return lattice.fixed_configs(tier, seed, keras3=keras3)


def nearest(ctx, fmt, x, y, base, tag):
  k = fixed.output_code(fmt, y)
  e = fixed.exact_code(fmt, x)
  ctx.evals(k.size)
  tol = 0.5 + fmt.slack + fixed.code_tolerance(fmt, x, y, k)
  # "a representable code": C01's lattice test on the same outputs (a value half-way between the two codes
  # of a one-bit format is within half a step of the input and still not a code)
  ctol = fixed.code_tolerance(fmt, x, y, k)
  off = (np.abs(k - np.round(k)) > ctol) | (np.round(k) < fmt.lo) | (np.round(k) > fmt.hi)
  if off.any() and np.all(np.isfinite(y)):
    i = int(np.argmax(off))
    ctx.violation(dict(base, kind="output_is_not_a_representable_code"),
                  "x=%r -> %r (code %g, codes %d..%d)" % (float(x.flat[i]), float(y.flat[i]), float(k.flat[i]), fmt.lo, fmt.hi),
                  {"x": float(x.flat[i]), "y": float(y.flat[i]), "tag": tag})
  err = np.abs(k - e)
  bad = err > tol
  if bad.any():
    i = int(np.argmax(err - tol if np.ndim(tol) else err))
    inside = bool(fmt.lo < e.flat[i] < fmt.hi)
    ctx.violation(dict(base, kind="not_nearest_inside" if inside else "not_end_code_outside"),
                  "x=%r -> code %g, exact %g (|diff|=%g > 1/2)" % (
                      float(x.flat[i]), float(k.flat[i]), float(e.flat[i]), float(err.flat[i])),
                  {"x": float(x.flat[i]), "y": float(y.flat[i]), "code": float(k.flat[i]),
                   "exact": float(e.flat[i]), "n_bad": int(bad.sum()), "tag": tag})


def run_case(cfg, ctx):
  from vf import qenv
  if cfg.get("tensor_alpha"):
    ctx.skip("tensor_alpha_configuration(C01 workload)")
    return
  fmt = fixed.make(cfg)
  cls = cfg["cls"]
  base = {"cls": cls, "variant": c01.variant(cfg, fmt),
          "alpha": qenv.alpha_class(cfg["kw"].get("alpha"))}
  if not fmt.supported:
    ctx.skip("unsupported_configuration")
    return
  with qenv.sigmoid_mode(cfg.get("sigmoid")):
    ok, q = ctx.call(base, qenv.build, cfg)
    if not ok:
      return
    if cfg.get("route"):
      ctx.count("route." + cfg["route"])
    rng = np.random.default_rng(cfg["seed"] * 104729 + cfg["idx"])
    x = fixed.probes(fmt, rng=rng, max_codes=4096 if ctx.tier == "quick" else 70000)
    ok, y = ctx.call(base, qenv.call, q, x)
    if not ok:
      return
    nearest(ctx, fmt, x, y, base, "probes")
    ctx.count("nearest_checked")
    ctx.nontrivial_many((cls, sorted(cfg["kw"].items(), key=str), cfg.get("sigmoid")), x)
    ctx.sample({"cfg": cfg, "format": repr(fmt), "n_probes": int(x.size),
                "probe_slice": x[x.size // 2: x.size // 2 + 5].tolist(),
                "outputs": y[x.size // 2: x.size // 2 + 5].tolist()})
    # monotone non-decreasing (x is sorted ascending)
    d = np.diff(y.astype(np.float64))
    ctx.count("monotone_checked")
    if fmt.surrogate.endswith("_real") and (d < 0).any():
      # TF's float32 tanh/sigmoid kernels are themselves not monotone at the
      # 1-ulp level; an inversion between two inputs that both sit within the
      # surrogate's float slack of the same rounding breakpoint is a tie, which
      # the statement allows either way (corrections log, DESIGN appendix C).
      e = (fixed.surrogate(fmt, x) - fmt.offset) / fmt.step
      frac = np.abs(e - (np.floor(e) + 0.5))
      tie = (frac[:-1] <= fmt.slack) & (frac[1:] <= fmt.slack) & (np.floor(e[:-1]) == np.floor(e[1:]))
      ctx.skip("real_surrogate_tie_inversions", int(((d < 0) & tie).sum()))
      d = np.where(tie, 0.0, d)
    if not fixed.is_dyadic(fmt.alpha) and (d < 0).any():
      # a non-dyadic constant scale: alpha*code and x + (-x + xq) are rounded float32 values, so two
      # inputs with the same (or adjacent) code may come out inverted by that rounding noise; only
      # inversions larger than the noise bound of C01's lattice test count (appendix C)
      unit = abs(fmt.alpha) * fmt.step
      tol = (fixed.code_tolerance(fmt, x[:-1], y[:-1], y[:-1] / unit) +
             fixed.code_tolerance(fmt, x[1:], y[1:], y[1:] / unit)) * unit
      ctx.skip("non_dyadic_scale_rounding_inversions", int(((d < 0) & (-d <= tol)).sum()))
      d = np.where(-d <= tol, 0.0, d)
    if (d < 0).any():
      i = int(np.argmin(d))
      ctx.violation(dict(base, kind="not_monotone"),
                    "q(%r)=%r > q(%r)=%r" % (float(x[i]), float(y[i]), float(x[i + 1]), float(y[i + 1])),
                    {"x0": float(x[i]), "y0": float(y[i]), "x1": float(x[i + 1]), "y1": float(y[i + 1])})
    # idempotence for linear / plain relu with a data-independent scale
    idem = cls in ("quantized_bits", "quantized_linear") or (
        cls == "quantized_relu" and not cfg["kw"].get("negative_slope"))
    if idem:
      ok, y2 = ctx.call(base, qenv.call, q, y)
      if ok:
        ctx.count("idempotence_checked")
        ne = y2 != y
        if not fixed.is_dyadic(fmt.alpha):
          unit = abs(fmt.alpha) * fmt.step
          tol = (fixed.code_tolerance(fmt, x, y, y / unit) + fixed.code_tolerance(fmt, y, y2, y2 / unit)) * unit
          ctx.skip("non_dyadic_scale_rounding_requantization", int((ne & (np.abs(y2.astype(np.float64) - y) <= tol)).sum()))
          ne = ne & (np.abs(y2.astype(np.float64) - y) > tol)
        if ne.any():
          i = int(np.argmax(ne))
          ctx.violation(dict(base, kind="not_idempotent"),
                        "q(q(x)) != q(x): x=%r q=%r qq=%r" % (float(x[i]), float(y[i]), float(y2[i])),
                        {"x": float(x[i]), "q": float(y[i]), "qq": float(y2[i]), "n_bad": int(ne.sum())})
    for t in qenv.random_tensors(rng, 4 if ctx.tier == "quick" else 16,
                                 fmt.step * fmt.in_scale * max(2.0, (fmt.hi - fmt.lo) / 3.0),
                                 bound=fixed.domain_bound(fmt)):
      ok, yt = ctx.call(base, qenv.call, q, t)
      if not ok:
        return
      nearest(ctx, fmt, t.ravel(), yt.ravel(), base, "random rank %d" % t.ndim)
      o = np.argsort(t.ravel(), kind="stable")
      dt = np.diff(yt.ravel()[o].astype(np.float64))
      rtol = 0.0
      if not fixed.is_dyadic(fmt.alpha):
        unit = abs(fmt.alpha) * fmt.step
        rtol = 2.0 * unit * float(np.max(fixed.code_tolerance(fmt, t.ravel(), yt.ravel(), yt.ravel() / unit)))
      if (dt < -rtol).any():
        ctx.violation(dict(base, kind="not_monotone"), "random tensor of rank %d" % t.ndim, None)
      if idem:
        ok, yt2 = ctx.call(base, qenv.call, q, yt)
        if ok and (np.abs(yt2.astype(np.float64) - yt) > rtol).any():
          ctx.violation(dict(base, kind="not_idempotent"), "random tensor of rank %d" % t.ndim,
                        {"q": yt.ravel()[:4].tolist(), "qq": yt2.ravel()[:4].tolist()})
