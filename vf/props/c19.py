"""C19 - qtools operation counts are the true MAC counts and the energy report adds up.

Runtime monitoring: random small quantized models are built from QKeras/Keras layers, the real
`QTools`, `extract_model_operations`, `QTools.pe`, `extract_energy_sum` and
`extract_energy_profile` are executed, and spies (recording wrappers) on
`qenergy.memory_read_energy`, `memory_write_energy`, `parameter_read_energy` and every `OP[...]`
gate lambda log each contribution with its arguments and return value.  Oracles:
  counts   == brute-force loop-nest counts (vf.ref.ops);
  energy   : every entry >= 0; entries == round(recorded contributions, 2); contributions ==
             independent re-evaluation of the documented formulas (vf.ref.energy) from the
             reported types, counts and tensor sizes; total_cost == int(sum of contributions);
             extract_energy_sum / extract_energy_profile == sums of the selected entries.
"""
import contextlib
import copy
import inspect
import io
import math
import random

from vf.gen import opmodels
from vf.ref import energy as E
from vf.ref import ops

PID = "C19"
RULE = ("one case = one generated model (conv2d / conv1d / dense family; Dense, Conv1D/2D with kernel 1..5, "
        "strides 1..3, dilation 1..2, valid/same/causal, groups, DepthwiseConv2D, (global) average pooling, "
        "Add/Concatenate/Multiply/Maximum/Average/Subtract merges, Q and plain Keras variants, 1-2 inputs / "
        "outputs, random weight / bias / activation quantizers) x QTools options (is_inference, for_reference, "
        "keras_quantizer/accumulator, source quantizers, export-first flow for auto_po2) x memory placements "
        "(weights, activations in {dram, sram, fixed}, rd_wr_on_io, min_sram_size) x 4 cost settings. "
        "Non-trivial = distinct (layer class, geometry) tuples whose count was compared with the loop nest "
        "plus distinct (model, placement) pairs whose energy report was re-derived from the spy log.")
ANCHORS = [("qkeras/qtools/qtools_util.py", 115, 224), ("qkeras/qtools/qenergy/qenergy.py", 74, 340),
           ("qkeras/qtools/run_qtools.py", 78, 126), ("qkeras/estimate.py", 373, 622)]
ASSUMPTIONS = [
    "a MAC is counted per (output position, kernel tap, connected channel pair) on the zero-padded input "
    "(dense loop nest); for 'valid' padding this equals the number of real multiplications",
    "average pooling performs positions x window x channels accumulations; element-wise merges of two inputs "
    "perform one operation per output element; Concatenate (no arithmetic), MaxPooling, Flatten, activations and "
    "DepthwiseConv2D with depth_multiplier > 1 (qtools asserts depth_multiplier == 1 elsewhere) are observed only",
    "gate_factor / gate_bits of a multiplier are taken from the reported multiplier object (their derivation is "
    "C16's subject); the Horowitz table and the memory rules are re-implemented in vf/ref/energy.py",
    "entries are compared with the recorded contributions to 0.005 (2-decimal rounding) and contributions with "
    "the reference to rtol 1e-9; total_cost may differ by one unit only if the float sum is within 1e-6 of an "
    "integer",
    "extract_model_operations is not driven on multi-input models (bn_folding_utils.unfold_model supports one "
    "input); Dense layers act on rank-1 samples (the documented restriction of both counters)",
    "generator domain: a layer built with use_bias=False gets no bias quantizer; depth_multiplier 2 is never "
    "combined with an auto_po2 depthwise quantizer (documented assertion); models with auto_po2 weights follow the "
    "documented flow model_save_quantized_weights -> QTools(model_weights_already_quantized=True); every 40th "
    "case is the directed 'narrow_merge' family (ternary x binary operands of a merge)",
    "a model output that is also consumed by another layer is not an 'output layer' in qtools' graph (only layers "
    "without consumers are): the output-placement rule is not enforced for it (observation)",
    "bit widths come from the report (QTools._output_dict); a report that differs from the type object "
    "energy_estimate reads is a violation of its own kind, after which the object's value is used",
]
TIMEOUT = {"quick": 600, "thorough": 2400}
WORKERS = {"quick": 16, "thorough": 16}
EXHAUSTIVE = {"quick": False, "thorough": False}

N_MODELS = {"quick": 400, "thorough": 6400}
N_PLACEMENTS = {"quick": 10, "thorough": 54}
THOROUGH_SCALE = 16            # models: thorough / quick
THOROUGH_PLACEMENT_SCALE = 5   # placements per model: 54 / 10, rounded down
PLACEMENTS = ["dram", "sram", "fixed"]
SETTINGS = [
    None,  # the live cfg.include_energy
    {"default": ["inputs", "outputs", "parameters", "op_cost"]},
    {"default": ["op_cost"], "QConv2D": ["inputs", "outputs"], "QDense": ["parameters"], "Add": []},
    {"QActivation": ["outputs", "inputs"]},  # no default: nothing selected for the other classes
    # keys of the stock classes only: a Q layer is looked up under its own class name, then "default"
    {"default": ["op_cost"], "Dense": ["inputs", "parameters"], "Conv2D": ["outputs"], "DepthwiseConv2D": ["parameters"],
     "Activation": ["inputs"]},
    {"Dense": ["parameters"], "Conv2D": ["inputs"], "AveragePooling2D": ["outputs"]},
]
COUNTED = ("conv", "dw", "dense", "avgpool", "gap", "merge")
EST_CLASSES = ("QDense", "QConv2D", "QConv1D", "QDepthwiseConv2D")
ARITH_SKIPPED = ("QAveragePooling2D", "QGlobalAveragePooling2D", "Maximum", "Minimum", "Average")


def thresholds(tier):
  # about one third of what the unchanged tree yields (quick: 640 models x 10 placements)
  quick = {"models_built": 210, "qtools.built": 200, "count.qtools.checked": 600, "count.estimate.checked": 320,
           "estimate.ran": 160, "cls.QConv2D": 130, "cls.QConv1D": 55, "cls.QDepthwiseConv2D": 44,
           "cls.QDense": 150, "cls.Conv2D": 25, "cls.Dense": 28, "cls.pooling": 70, "cls.merge": 85,
           "geom.strided": 95, "geom.dilated": 50, "geom.same": 180, "geom.valid": 100, "geom.causal": 23,
           "geom.grouped": 16, "geom.padded_taps": 170, "placements_checked": 1600,
           "energy.entries_checked": 37000, "energy.formula_checked": 37000, "energy.totals_checked": 1600,
           "energy.conservation_checked": 1600, "energy.trace_events_checked": 25000,
           "energy.sums_checked": 6600, "energy.profiles_checked": 6600, "spy.events": 70000,
           "spy.memory_read_energy": 16000, "spy.memory_write_energy": 9000, "spy.parameter_read_energy": 9000,
           "spy.OP": 34000, "ref.keras_selfcheck": 95, "distinct_nontrivial": 2400}
  # the table above was measured with 640 quick models; the quick tier now runs 400
  quick = {k: int(v * 400 / 640) for k, v in quick.items()}
  if tier == "quick":
    return quick
  out = {}
  for k, v in quick.items():
    per_placement = k.startswith(("energy.", "spy.", "placements"))
    out[k] = int(v * THOROUGH_SCALE * (THOROUGH_PLACEMENT_SCALE if per_placement else 1))
  out["distinct_nontrivial"] = int(quick["distinct_nontrivial"] * THOROUGH_SCALE * 3)
  return out


def cases(tier, seed):
  import os
  n = int(os.environ.get("VERIF_C19_MODELS", "0") or 0) or N_MODELS[tier]   # debugging aid only
  sweeps = [{"sweep": j, "idx": n + j, "seed": seed} for j in range(12 if tier == "quick" else 120)]
  return [{"idx": i, "seed": seed} for i in range(n)] + sweeps


def run_sweep(case, ctx):
  """Geometry sweep: models that differ *only* in strides / padding / dilation of one layer (same layer
  name, same input shape, same parameter count) analysed one after the other in this process; every
  count must be the loop-nest count of its own geometry (nothing may be remembered between models)."""
  import numpy as np
  import tensorflow as tf
  import qkeras
  from qkeras.qtools import run_qtools
  rnd = random.Random(case["seed"] * 104729 + case["sweep"])
  kind = rnd.choice(["conv2d", "conv2d", "dw", "conv1d", "conv2d_bn", "dw_bn"])      # *_bn: the folded conv + batch-norm classes
  k = rnd.choice([2, 3])
  cin, f = rnd.choice([1, 2, 3]), rnd.choice([1, 2, 4])
  size = rnd.choice([7, 8, 9, 12])
  variants = [(1, "valid", 1), (2, "valid", 1), (1, "same", 1), (2, "same", 1), (1, "valid", 2), (1, "same", 2), (3, "same", 1)]
  rnd.shuffle(variants)
  name = "sweep_" + kind
  for vi, (stride, pad, dil) in enumerate(variants[:5]):
    tf.keras.backend.clear_session()
    # "for one input sample": a static batch dimension must not enter any count
    batch = [None, 4, 1, None, 3][(vi + case["sweep"]) % 5]
    if kind == "conv1d":
      inp = tf.keras.layers.Input((size, cin), name="in", batch_size=batch)
      layer = qkeras.QConv1D(f, k, strides=stride, padding=pad, dilation_rate=dil, name=name,
                             kernel_quantizer="quantized_bits(4,0,1)", bias_quantizer="quantized_bits(4,0,1)")
    elif kind == "conv2d_bn":
      inp = tf.keras.layers.Input((size, size, cin), name="in", batch_size=batch)
      layer = qkeras.QConv2DBatchnorm(f, (k, k), strides=(stride, stride), padding=pad, dilation_rate=(dil, dil), name=name,
                                      kernel_quantizer="quantized_bits(4,0,1)", bias_quantizer="quantized_bits(4,0,1)")
    elif kind == "dw_bn":
      inp = tf.keras.layers.Input((size, size, cin), name="in", batch_size=batch)
      layer = qkeras.QDepthwiseConv2DBatchnorm((k, k), strides=(stride, stride), padding=pad, dilation_rate=(dil, dil), name=name,
                                               depthwise_quantizer="quantized_bits(4,0,1)", bias_quantizer="quantized_bits(4,0,1)")
    elif kind == "conv2d":
      inp = tf.keras.layers.Input((size, size, cin), name="in", batch_size=batch)
      layer = qkeras.QConv2D(f, (k, k), strides=(stride, stride), padding=pad, dilation_rate=(dil, dil), name=name,
                             kernel_quantizer="quantized_bits(4,0,1)", bias_quantizer="quantized_bits(4,0,1)")
    else:
      inp = tf.keras.layers.Input((size, size, cin), name="in", batch_size=batch)
      layer = qkeras.QDepthwiseConv2D((k, k), strides=(stride, stride), padding=pad, dilation_rate=(dil, dil), name=name,
                                      depthwise_quantizer="quantized_bits(4,0,1)", bias_quantizer="quantized_bits(4,0,1)")
    base = {"part": "count", "route": "qtools", "cls": type(layer).__name__}
    def mk():
      y = layer(inp)
      y = qkeras.QActivation("quantized_bits(6,2,1)", name="sweep_act")(y)
      return tf.keras.Model(inp, tf.keras.layers.Add(name="sweep_add")([y, y]))
    ok, model = ctx.call(dict(base, op="build_sweep_model"), mk)
    if not ok:
      continue
    out = [int(d) for d in model.output_shape[1:]]
    kvol = k if kind == "conv1d" else k * k
    expect = int(np.prod(out[:-1])) * kvol * cin * (f if kind not in ("dw", "dw_bn") else 1)
    ok, q = ctx.call(dict(base, op="QTools"), lambda: _quiet_call(
        run_qtools.QTools, model, process="horowitz", source_quantizers=[qkeras.quantized_bits(8, 0, 1)],
        is_inference=False, weights_path=None, keras_quantizer="fp32", keras_accumulator="fp32", for_reference=False))
    if not ok:
      continue
    got = q._output_dict.get(name, {}).get("operation_count")      # pylint: disable=protected-access
    ctx.count("sweep.models")
    ctx.evals(1)
    ctx.nontrivial("sweep", kind, k, cin, f, size, stride, pad, dil)
    got_add = q._output_dict.get("sweep_add", {}).get("operation_count")      # pylint: disable=protected-access
    if got_add is None or int(got_add) != int(np.prod(out)):
      ctx.violation({"part": "count", "route": "qtools", "cls": "Add", "kind": "count_mismatch_in_geometry_sweep"},
                    "Add over %r elements per sample (batch dimension %r): reports %r operations" % (out, batch, got_add),
                    {"batch": batch})
    if got is None or int(got) != expect:
      ctx.violation(dict(base, kind="count_mismatch_in_geometry_sweep", reported="zero" if not got else "nonzero"),
                    "%s k=%d cin=%d f=%d input %d, strides %d padding %s dilation %d: reports %r operations, the loop nest performs %d" % (
                        kind, k, cin, f, size, stride, pad, dil, got, expect),
                    {"variants_before": variants[:5]})
  # a transposed convolution with unit stride and "same" padding is a convolution with the flipped kernel: its
  # loop nest has out_h * out_w * filters * k * k * cin multiply-accumulates (the stock class; the quantized one
  # cannot be called under the pinned TensorFlow).  The kernel is stored as (k, k, filters, cin).
  if case["sweep"] % 2 == 0:
    from qkeras.qtools import qtools_util
    tf.keras.backend.clear_session()
    ft = f + 1 if f == cin else f
    base = {"part": "count", "route": "direct", "cls": "Conv2DTranspose"}
    def mkt():
      inp = tf.keras.layers.Input((size, size, cin), name="in_t")
      lt = tf.keras.layers.Conv2DTranspose(ft, (k, k), strides=(1, 1), padding="same", name="sweep_convt")
      lt(inp)
      return lt
    ok, lt = ctx.call(dict(base, op="build_sweep_model"), mkt)
    if ok:
      ok, got = ctx.call(dict(base, op="get_operation_count"), qtools_util.get_operation_count, lt, (None, size, size, cin))
      if ok:
        ctx.count("sweep.transposed")
        ctx.evals(1)
        expect = size * size * ft * k * k * cin
        if got is None or int(got) != expect:
          ctx.violation(dict(base, kind="count_mismatch_in_geometry_sweep", reported="zero" if not got else "nonzero"),
                        "Conv2DTranspose k=%d cin=%d f=%d input %d, stride 1, same: reports %r operations, the loop nest performs %d" % (
                            k, cin, ft, size, got, expect), None)


def expand(case, tier):
  """Deterministic expansion of (seed, idx) into the literal case (kept in the witness)."""
  if "spec" in case:
    return case
  rnd = random.Random(case["seed"] * 1000003 + case["idx"] * 7919 + 19)
  spec = opmodels.gen_spec(rnd, "narrow_merge" if case["idx"] % 40 == 7 else None)
  auto = opmodels.uses_auto_po2(spec)
  for_ref = rnd.random() < 0.15
  opts = {
      "is_inference": rnd.random() < 0.5,
      "for_reference": for_ref,
      "keras_quantizer": rnd.choice([None, None, "fp32", "fp16", "int8"]) if not for_ref else rnd.choice(["fp32", "fp16", None]),
      "keras_accumulator": rnd.choice([None, None, "fp32", "fp16"]) if not for_ref else rnd.choice(["fp32", "fp16", None]),
      "export_first": auto or rnd.random() < 0.2,
      "src_none": rnd.random() < 0.15,
  }
  opts["already_quantized"] = True if opts["export_first"] else rnd.random() < 0.5
  allp = [(w, a, io_, ms) for w in PLACEMENTS for a in PLACEMENTS for io_ in (True, False)
          for ms in (0, 2 ** rnd.randint(4, 14), 2 ** 20)]
  n = N_PLACEMENTS[tier]
  if n < len(allp):
    chosen = [("dram", "dram", True, 0)] + rnd.sample(allp, n - 1)
  else:
    chosen = allp
  out = dict(case)
  out.update(spec=spec, opts=opts, placements=[list(p) for p in chosen])
  return out


# ------------------------------------------------------------------------------------ spies
class Spy(object):
  def __init__(self):
    self.roots = []
    self.stack = []
    self.n = 0

  def clear(self):
    self.roots = []
    self.stack = []

  def wrap(self, fn, name, describe):
    spy = self
    sig = None
    try:
      sig = inspect.signature(fn)
    except (TypeError, ValueError):
      pass

    def wrapper(*a, **k):
      ev = {"fn": name, "children": [], "ret": None}
      try:
        if sig is not None:
          ba = sig.bind(*a, **k)
          ba.apply_defaults()
          ev["args"] = describe(ba.arguments)
        else:
          ev["args"] = describe({"x": a[0]})
      except TypeError:
        ev["args"] = {"unbound": True}
      (spy.stack[-1]["children"] if spy.stack else spy.roots).append(ev)
      spy.stack.append(ev)
      spy.n += 1
      try:
        r = fn(*a, **k)
      finally:
        spy.stack.pop()
      ev["ret"] = float(r)
      return r

    wrapper.__wrapped__ = fn
    wrapper.__name__ = getattr(fn, "__name__", name)
    return wrapper


def _shape_list(s):
  if s is None:
    return None
  if isinstance(s, (tuple, list)):
    return [None if d is None else int(d) for d in s]
  try:
    return [int(d) for d in s]
  except TypeError:
    return int(s)


def _describe_mem(a):
  d = {k: a.get(k) for k in ("mode", "min_sram_size", "rd_wr_on_io")}
  d["io"] = bool(a.get("is_input_layer", a.get("is_output_layer")))
  d["shape"] = _shape_list(a.get("tensor_shape"))
  d["bits"] = float(a.get("quantizer_bits"))
  d["is_tensor"] = bool(a.get("is_tensor", True))
  return d


def _describe_param(a):
  return {"layer": a["layer"].name, "mode": a.get("weights_on_memory"), "min_sram_size": a.get("min_sram_size"),
          "rd_wr_on_io": a.get("rd_wr_on_io")}


def _describe_op(a):
  return {"x": float(list(a.values())[0])}


def setup(ctx):
  from qkeras.qtools.qenergy import qenergy
  spy = Spy()
  qenergy.memory_read_energy = spy.wrap(qenergy.memory_read_energy, "memory_read_energy", _describe_mem)
  qenergy.memory_write_energy = spy.wrap(qenergy.memory_write_energy, "memory_write_energy", _describe_mem)
  qenergy.parameter_read_energy = spy.wrap(qenergy.parameter_read_energy, "parameter_read_energy", _describe_param)
  n_op = 0
  for fam, table in qenergy.OP.items():
    for key, fn in list(table.items()):
      if callable(fn):
        table[key] = spy.wrap(fn, "OP.%s.%s" % (fam, key), _describe_op)
        n_op += 1
  ctx.count("spy.installed", 3 + n_op)
  ctx.state["c19"] = {"spy": spy}


@contextlib.contextmanager
def quiet():
  with contextlib.redirect_stdout(io.StringIO()), contextlib.redirect_stderr(io.StringIO()):
    yield


def _quiet_call(fn, *a, **k):
  with quiet():
    return fn(*a, **k)


# ------------------------------------------------------------------------------------ helpers
def close(a, b, rtol=1e-9, atol=1e-9):
  return abs(a - b) <= atol + rtol * max(abs(a), abs(b))


def numel(shape, is_tensor=True):
  if isinstance(shape, int):
    return shape
  dims = list(shape)
  if is_tensor:
    dims = dims[1:]
  n = 1
  for d in dims:
    n *= int(d)
  return n


def geometry_key(n):
  keys = ("cls", "in_shape", "filters", "kernel", "strides", "dilation", "padding", "groups", "depth_multiplier",
          "units", "pool")
  return tuple((k, str(n[k])) for k in keys if k in n)


def relation(n, got, exp):
  """Mechanism class of a wrong count (most specific explanation first)."""
  r = n["expect"]
  if got == 0:
    return "zero"
  if n.get("groups", 1) > 1 and got == exp * n["groups"]:
    return "groups_ignored"
  if n.get("depth_multiplier", 1) > 1 and got * n["depth_multiplier"] == exp:
    return "depth_multiplier_ignored"
  if r.get("positions", 1) > 1 and got * r["positions"] == exp:
    return "missing_output_positions"
  if got == r.get("mac_real") and got != exp:
    return "padding_taps_excluded"
  return "other"


def count_geometry(ctx, n):
  ctx.count("cls.%s" % n["cls"])
  if n["kind"] in ("avgpool", "gap"):
    ctx.count("cls.pooling")
  if n["kind"] == "merge":
    ctx.count("cls.merge")
    ctx.count("merge.%s" % n["cls"])
    ctx.seen("merge_inputs", len(n["in"]))
  if n["kind"] in ("conv", "dw", "avgpool"):
    st = n.get("strides") or [1]
    if max(st) > 1:
      ctx.count("geom.strided")
    if max(n.get("dilation") or [1]) > 1:
      ctx.count("geom.dilated")
    ctx.count("geom.%s" % n["padding"])
    if n.get("groups", 1) > 1:
      ctx.count("geom.grouped")
    if n.get("depth_multiplier", 1) > 1:
      ctx.count("geom.depth_multiplier")
    for k in (n.get("kernel") or n.get("pool")):
      ctx.seen("kernel", int(k))
    for s in st:
      ctx.seen("stride", int(s))
    for d in n["in_shape"][:-1]:
      ctx.seen("spatial", int(d))
    ctx.seen("channels_in", int(n["in_shape"][-1]))
    if n["expect"]["mac"] != n["expect"]["mac_real"]:
      ctx.count("geom.padded_taps")
  if n["kind"] == "dense":
    ctx.seen("dense_in", int(n["in_shape"][-1]))
    ctx.seen("dense_units", int(n["units"]))


def keras_selfcheck(ctx, n):
  """The reference geometry against the executed plain-Keras layer with all-ones data:
  sum(output) counts exactly the multiplications on real input elements."""
  import numpy as np
  import tensorflow as tf
  L = tf.keras.layers
  if n["kind"] == "conv":
    cls = L.Conv2D if n["rank"] == 2 else L.Conv1D
    layer = cls(n["filters"], tuple(n["kernel"]), strides=tuple(n["strides"]), padding=n["padding"],
                dilation_rate=tuple(n["dilation"]), groups=n["groups"], use_bias=False, kernel_initializer="ones")
  elif n["kind"] == "dw":
    layer = L.DepthwiseConv2D(tuple(n["kernel"]), strides=tuple(n["strides"]), padding=n["padding"],
                              depth_multiplier=n["depth_multiplier"], use_bias=False, depthwise_initializer="ones")
  else:
    return
  y = layer(np.ones([1] + n["in_shape"], np.float32)).numpy()
  got_shape = list(y.shape[1:])
  total = int(round(float(y.astype(np.float64).sum())))
  if got_shape != n["shape"] or total != n["expect"]["mac_real"]:
    raise ops.RefError("reference disagrees with executed Keras layer: %r shape %r/%r real macs %r/%r" % (
        {k: n[k] for k in ("cls", "in_shape", "kernel", "strides", "padding")}, got_shape, n["shape"], total,
        n["expect"]["mac_real"]))
  ctx.count("ref.keras_selfcheck")


# ------------------------------------------------------------------------------------ the case
def run_case(case, ctx):
  import tensorflow as tf
  if "sweep" in case:
    return run_sweep(case, ctx)
  st = ctx.state["c19"]
  case = expand(case, ctx.tier)
  ctx.case = case
  spec, opts = case["spec"], case["opts"]
  nodes = {n["name"]: n for n in spec["nodes"]}
  classes = sorted({n["cls"] for n in spec["nodes"]})
  tf.keras.backend.clear_session()
  ok, built = ctx.call({"part": "build"}, lambda: _quiet_call(opmodels.build, spec))
  if not ok:
    return
  model, layers = built
  ctx.count("models_built")
  ctx.count("family.%s" % spec["family"])
  if len(spec["inputs"]) > 1:
    ctx.count("models.multi_input")
  if len(spec["outputs"]) > 1:
    ctx.count("models.multi_output")
  counted = [n for n in spec["nodes"] if n["kind"] in COUNTED]
  for n in counted:
    if n["kind"] in ("conv", "dw") and (case["idx"] + len(n["name"])) % 3 == 0:
      keras_selfcheck(ctx, n)

  from qkeras.qtools import run_qtools
  from qkeras.qtools.settings import cfg
  from qkeras.estimate import extract_model_operations
  from qkeras.utils import model_save_quantized_weights

  if opts["export_first"]:
    ok, _ = ctx.call({"part": "export"}, lambda: _quiet_call(model_save_quantized_weights, model))
    if not ok:
      return
    ctx.count("flow.export_first")
  src = None if opts["src_none"] else [opmodels._q(s) for s in spec["src_q"]]
  has_subtract = "Subtract" in classes
  ok, q = ctx.call(
      {"part": "qtools", "subtract_merge": has_subtract},
      lambda: _quiet_call(run_qtools.QTools, model, process="horowitz", source_quantizers=src,
                          is_inference=opts["is_inference"], weights_path=None,
                          keras_quantizer=opts["keras_quantizer"], keras_accumulator=opts["keras_accumulator"],
                          for_reference=opts["for_reference"],
                          model_weights_already_quantized=opts["already_quantized"]))
  if ok:
    ctx.count("qtools.built")
    od = q._output_dict
    # ---- counts, route qtools
    for name, n in nodes.items():
      if n["kind"] == "input":
        continue
      if name not in od:
        ctx.violation({"part": "count", "route": "qtools", "kind": "layer_missing_from_report", "cls": n["cls"]},
                      "layer %s (%s) has no entry in QTools._output_dict" % (name, n["cls"]), None)
    for n in counted:
      if n["name"] not in od:
        continue
      check_count(ctx, n, od[n["name"]].get("operation_count"), "qtools")
    check_energy_all(ctx, st, case, model, layers, q, nodes, cfg)

  # ---- counts, route estimate.extract_model_operations
  est_nodes = [n for n in counted if n["cls"] in EST_CLASSES]
  if len(spec["inputs"]) > 1:
    ctx.skip("estimate.multi_input_model")
  elif est_nodes:
    size_one = any(n["kind"] == "dense" and n["quantized"] and (n["units"] == 1 or n["in_shape"][-1] == 1)
                   for n in counted)
    ok, res = ctx.call({"part": "count", "route": "estimate", "qdense_with_size_one_axis": size_one},
                       lambda: _quiet_call(extract_model_operations, model))
    if ok:
      ctx.count("estimate.ran")
      for n in est_nodes:
        if n["name"] not in res:
          ctx.violation({"part": "count", "route": "estimate", "kind": "layer_missing_from_report", "cls": n["cls"]},
                        "layer %s (%s) missing from extract_model_operations" % (n["name"], n["cls"]), None)
          continue
        check_count(ctx, n, res[n["name"]].get("number_of_operations"), "estimate")
  if case["idx"] % 97 == 0:
    ctx.sample({"idx": case["idx"], "family": spec["family"], "classes": classes, "opts": opts,
                "layers": [{k: n.get(k) for k in ("cls", "in_shape", "kernel", "strides", "dilation", "padding",
                                                  "groups", "units", "pool") if n.get(k) is not None}
                           for n in counted][:4],
                "expected_counts": [n["expect"]["mac"] for n in counted][:4]})


def check_count(ctx, n, got, route):
  exp = n["expect"]["mac"]
  cls = n["cls"]
  ctx.evals(1)
  if route == "qtools":
    count_geometry(ctx, n)
  ctx.count("count.%s.checked" % route)
  ctx.nontrivial("L", route, geometry_key(n))
  if n["cls"] == "Concatenate":
    if got != 0:
      ctx.observe("concatenate_reports_nonzero_count(no arithmetic performed)",
                  {"in_shape": n["in_shape"], "reported": got})
    return
  if not isinstance(got, int) or isinstance(got, bool):
    ctx.violation({"part": "count", "route": route, "kind": "count_not_an_int", "cls": cls},
                  "%s count %r (%s)" % (cls, got, type(got).__name__), None)
    return
  if got == exp:
    return
  rel = relation(n, got, exp)
  detail = {k: n.get(k) for k in ("cls", "in_shape", "filters", "kernel", "strides", "dilation", "padding",
                                  "groups", "depth_multiplier", "units", "pool") if n.get(k) is not None}
  detail.update(reported=got, loop_nest=exp, output_positions=n["expect"].get("positions"))
  if rel == "depth_multiplier_ignored":
    ctx.observe("depthwise depth_multiplier>1: count ignores the multiplier (%s)" % route, detail)
    return
  ctx.violation({"part": "count", "route": route, "kind": "count_mismatch", "cls": cls, "relation": rel},
                "%s reports %d operations, the loop nest performs %d (%s)" % (cls, got, exp, rel), detail)


# ------------------------------------------------------------------------------------ energy
def check_energy_all(ctx, st, case, model, layers, q, nodes, cfg):
  spec = case["spec"]
  spy = st["spy"]
  od = q._output_dict
  lmap = q._layer_map["layer_data_type_map"]
  from qkeras.qtools import qtools_util
  classes = {n["cls"] for n in spec["nodes"]}
  unq_pool = bool(classes & {"AveragePooling2D", "GlobalAveragePooling2D"})
  consumers = {}
  for n in spec["nodes"]:
    for i in n["in"]:
      consumers.setdefault(i, []).append(n["name"])
  src_bits = [float(s["bits"]) for s in od.get("source_quantizers", [])]
  # bit widths: the report (QTools._output_dict) is the contract; the live type objects are what
  # energy_estimate reads.  A difference is a violation of its own kind, after which the live
  # value is used so that the remaining formula checks do not cascade.
  out_bits = {}
  in_bits = {}
  for name, n in nodes.items():
    if n["kind"] == "input" or name not in od:
      continue
    item = lmap.get(layers[name])
    rep = od[name]
    pairs = []
    roq, loq = rep.get("output_quantizer"), qtools_util.get_val(item, "output_quantizer")
    out_bits[name] = float(roq["bits"]) if roq else None
    if roq and loq is not None:
      pairs.append(("output", roq, loq))
    lst = qtools_util.get_val(item, "input_quantizer_list") or []
    in_bits[name] = [float(x["bits"]) for x in rep.get("input_quantizer_list", [])]
    for k, (r_, l_) in enumerate(zip(rep.get("input_quantizer_list", []), lst)):
      pairs.append(("input", r_, l_))
    for tensor, r_, l_ in pairs:
      ctx.evals(1)
      if float(r_["bits"]) != float(l_.bits):
        ctx.violation({"part": "energy", "kind": "reported_bits_differ_from_bits_used", "tensor": tensor,
                       "quantizer_type": r_.get("quantizer_type")},
                      "%s (%s): %s type reported as %r but the type object energy_estimate reads has bits=%r" % (
                          name, n["cls"], tensor, dict(r_), l_.bits), None)
    if roq and loq is not None:
      out_bits[name] = float(loq.bits)
    if len(lst) == len(in_bits[name]):
      in_bits[name] = [float(x.bits) for x in lst]
  info = {}
  for name, n in nodes.items():
    if n["kind"] == "input" or name not in od:
      continue
    item = lmap.get(layers[name])
    rep = od[name]
    prod_bits = []
    for i in n["in"]:
      p = nodes[i]
      if p["kind"] == "input":
        j = spec["inputs"].index(i)
        prod_bits.append(src_bits[j] if j < len(src_bits) else None)
      else:
        prod_bits.append(out_bits.get(i))
    info[name] = {
        "n": n, "item": item, "rep": rep, "cls": n["cls"],
        "is_in": any(nodes[i]["kind"] == "input" for i in n["in"]),
        "is_out": name in spec["outputs"],
        "consumed": name in consumers,
        "in_shapes": [nodes[i]["shape"] for i in n["in"]],
        "prod_bits": prod_bits,
        "list_bits": in_bits[name],
        "out_bits": out_bits[name],
        "gv": (lambda key, it=item: qtools_util.get_val(it, key)),
    }
  fp_gate = False
  for name, inf in info.items():
    for key in ("multiplier", inf["cls"] + "_quantizer"):
      m = inf["rep"].get(key)
      if m and m.get("quantizer_type") == "floating_point" and m.get("op_type") not in ("mul", "add"):
        fp_gate = True
  include_before = copy.deepcopy(cfg.include_energy)
  for (wm, am, io_, ms) in case["placements"]:
    spy.clear()
    n0 = spy.n
    ok, e = ctx.call({"part": "energy", "unquantized_avg_pooling": unq_pool,
                      "floating_point_multiplier_implemented_as_gate": fp_gate},
                     lambda: q.pe(weights_on_memory=wm, activations_on_memory=am, min_sram_size=ms,
                                  rd_wr_on_io=io_))
    ctx.count("spy.events", spy.n - n0)
    if not ok:
      ctx.count("energy.pe_raised")
      break
    ctx.count("placements_checked")
    ctx.seen("placement", "%s/%s/io=%d" % (wm, am, int(io_)))
    ctx.seen("min_sram_size", int(ms))
    ctx.nontrivial("E", case["seed"], case["idx"], wm, am, io_, ms)
    check_energy(ctx, spy, info, nodes, e, wm, am, io_, ms)
    check_extract(ctx, q, cfg, e)
  if cfg.include_energy != include_before:
    ctx.violation({"part": "energy", "kind": "global_cost_setting_mutated"},
                  "cfg.include_energy changed while computing / extracting energy", None)


def _count_spy(ctx, ev):
  if ev["fn"].startswith("OP."):
    ctx.count("spy.OP")
    ctx.seen("spy_gate", ev["fn"])
  else:
    ctx.count("spy.%s" % ev["fn"])
  for c in ev["children"]:
    _count_spy(ctx, c)


def check_mem_event(ctx, ev, write):
  """Function-level contract of memory_read_energy / memory_write_energy: return value and the
  gates consulted are the documented functions of the call's own arguments."""
  a = ev["args"]
  fn = E.mem_write if write else E.mem_read
  elements = numel(a["shape"], a["is_tensor"])
  ref, trace = fn(a["io"], elements, a["bits"], a["mode"], a["min_sram_size"], a["rd_wr_on_io"])
  eff = ("dram" if a["rd_wr_on_io"] else "sram") if a["io"] else a["mode"]
  mode = "%s%s" % (eff, "+io" if (a["rd_wr_on_io"] and eff == "dram") else "")
  base = {"part": "energy", "fn": ev["fn"], "mode": mode}
  ctx.evals(2)
  ctx.count("energy.trace_events_checked")
  got_trace = [(c["fn"], c["args"]["x"]) for c in ev["children"]]
  want_trace = [("OP.%s.%s" % (f, o), x) for (f, o, x) in trace]
  if [g[0] for g in got_trace] != [w[0] for w in want_trace] or \
     any(not close(g[1], w[1]) for g, w in zip(got_trace, want_trace)):
    ctx.violation(dict(base, kind="memory_gate_trace_differs"),
                  "%s(%r): gates consulted %r, documented %r" % (ev["fn"], a, got_trace, want_trace), None)
  if ev["ret"] is None or not close(ev["ret"], ref):
    ctx.violation(dict(base, kind="memory_energy_differs_from_formula"),
                  "%s(%r) returned %r, documented formula gives %r" % (ev["fn"], a, ev["ret"], ref), None)
  if ev["ret"] is not None and ev["ret"] < 0:
    ctx.violation(dict(base, kind="negative_contribution"), "%s(%r) = %r" % (ev["fn"], a, ev["ret"]), None)


def segment(roots):
  segs = []
  cur = None
  for ev in roots:
    fn = ev["fn"]
    stage = {"memory_read_energy": 0, "parameter_read_energy": 1, "memory_write_energy": 2}.get(fn, 3)
    if cur is None or stage < cur["stage"] or (stage == cur["stage"] and stage in (1, 2)):
      cur = {"reads": [], "param": None, "write": None, "ops": [], "stage": 0}
      segs.append(cur)
    cur["stage"] = stage
    if stage == 0:
      cur["reads"].append(ev)
    elif stage == 1:
      cur["param"] = ev
    elif stage == 2:
      cur["write"] = ev
    else:
      cur["ops"].append(ev)
  return segs


def op_expectation(inf):
  """(kind, expected op energy, expected gate trace) from the REPORTED count and types."""
  cls, rep, gv = inf["cls"], inf["rep"], inf["gv"]
  count = rep.get("operation_count")
  if cls in E.MAC_CLASSES:
    mult, acc = gv("multiplier"), gv("accumulator")
    mrep, arep = rep["multiplier"], rep["accumulator"]
    ref, trace = E.mac_energy(count, mult.gate_factor, E.family_of(mrep["quantizer_type"], mrep["bits"]),
                              mrep["op_type"], mult.gate_bits,
                              E.family_of(arep["quantizer_type"], arep["bits"]), arep["bits"])
    return "mac", ref, trace, (count, mult.gate_factor)
  if cls in E.MERGE_OP_CLASSES:
    mq = gv("multiplier")
    mrep = rep[cls + "_quantizer"]
    nin = len(rep["input_quantizer_list"])
    ref, trace = E.merge_energy(nin, count, mq.gate_factor, E.family_of(mrep["quantizer_type"], mrep["bits"]),
                                mrep["op_type"], mq.gate_bits)
    return "merge", ref, trace, (count, mq.gate_factor, nin)
  if cls in E.POOL_CLASSES:
    arep = rep["pool_sum_accumulator"]
    ref, trace = E.pool_energy(count, E.family_of(arep["quantizer_type"], arep["bits"]), arep["bits"])
    return "pool", ref, trace, (count,)
  return "none", 0.0, [], (count,)


def check_energy(ctx, spy, info, nodes, e, wm, am, io_, ms):
  for ev in spy.roots:
    _count_spy(ctx, ev)
  # --- shape of the report
  if not isinstance(e.get("total_cost"), int) or isinstance(e.get("total_cost"), bool):
    ctx.violation({"part": "energy", "kind": "total_cost_not_an_int"}, "total_cost = %r" % (e.get("total_cost"),), None)
    return
  names = [k for k in e if k != "total_cost"]
  for name in info:
    if name not in e:
      ctx.violation({"part": "energy", "kind": "layer_missing_from_energy_report", "cls": info[name]["cls"]},
                    "layer %s (%s) has no energy entry" % (name, info[name]["cls"]), None)
  entries_sum = 0.0
  for name in names:
    item = e[name]
    for k in E.ENTRY_KEYS:
      v = item["energy"].get(k)
      ctx.evals(1)
      ctx.count("energy.entries_checked")
      if v is None or not (v >= 0) or math.isinf(v):
        ctx.violation({"part": "energy", "kind": "entry_negative_or_not_finite", "entry": k,
                       "cls": item.get("class_name")}, "%s.%s = %r" % (name, k, v), None)
        return
      entries_sum += v
    if set(item["energy"]) != set(E.ENTRY_KEYS):
      ctx.violation({"part": "energy", "kind": "entry_keys_differ", "cls": item.get("class_name")},
                    "%s has entries %r" % (name, sorted(item["energy"])), None)
    if name in info and item.get("class_name") != info[name]["cls"]:
      ctx.violation({"part": "energy", "kind": "class_name_differs", "cls": info[name]["cls"]},
                    "%s reported as %r" % (name, item.get("class_name")), None)
  total = e["total_cost"]
  ctx.evals(1)
  ctx.count("energy.totals_checked")
  slack = 0.005 * len(E.ENTRY_KEYS) * len(names) + 1e-6
  if not (entries_sum - slack - 1.0 < total <= entries_sum + slack) or total < 0:
    ctx.violation({"part": "energy", "kind": "total_is_not_the_sum_of_entries"},
                  "total_cost=%r, sum of all layer entries=%r (%d layers)" % (total, entries_sum, len(names)),
                  {"placement": [wm, am, io_, ms]})

  # --- per-layer reconstruction from the spy log
  segs = segment(spy.roots)
  seg_names = [s["param"]["args"]["layer"] if s["param"] else None for s in segs]
  if seg_names != names:
    ctx.violation({"part": "energy", "kind": "spy_trace_does_not_match_report"},
                  "layers in the report %r, layers whose contributions were recorded %r" % (names, seg_names), None)
    return
  running = 0.0
  for seg, name in zip(segs, names):
    if name not in info:
      continue
    inf = info[name]
    cls = inf["cls"]
    ent = e[name]["energy"]
    base = {"part": "energy", "cls": cls}
    if seg["write"] is None:
      ctx.violation(dict(base, kind="no_output_write_recorded"), "layer %s" % name, None)
      return
    # function-level contracts on every memory event of this layer
    for r in seg["reads"]:
      check_mem_event(ctx, r, write=False)
    for r in seg["param"]["children"]:
      if r["fn"] == "memory_read_energy":
        check_mem_event(ctx, r, write=False)
    check_mem_event(ctx, seg["write"], write=True)

    # ---- inputs
    raw_in = 0.0
    for r in seg["reads"]:
      raw_in += r["ret"]
    ref_in = None
    if len(seg["reads"]) != len(inf["in_shapes"]):
      ctx.violation(dict(base, kind="input_reads_differ_from_number_of_inputs"),
                    "%s: %d reads recorded, layer has %d inputs" % (name, len(seg["reads"]), len(inf["in_shapes"])), None)
    elif None not in inf["prod_bits"]:
      ref_in = 0.0
      for shp, bits in zip(inf["in_shapes"], inf["prod_bits"]):
        ref_in += E.mem_read(inf["is_in"], ops.numel(shp), bits, am, ms, io_)[0]
      for r, shp in zip(seg["reads"], inf["in_shapes"]):
        a = r["args"]
        if (a["io"], a["mode"], a["min_sram_size"], a["rd_wr_on_io"], a["is_tensor"]) != (inf["is_in"], am, ms, io_, True):
          ctx.violation(dict(base, kind="memory_call_arguments_differ", tensor="input"),
                        "%s: read called with %r; layer is_input=%r placement=%r" % (name, a, inf["is_in"], (am, ms, io_)), None)
      if not close(raw_in, ref_in):
        alt = 0.0
        for shp, bits in zip(inf["in_shapes"], inf["list_bits"]):
          alt += E.mem_read(inf["is_in"], ops.numel(shp), bits, am, ms, io_)[0]
        got_shapes = [r["args"]["shape"] for r in seg["reads"]]
        kind = "input_quantizer_paired_with_wrong_tensor" if (
            close(raw_in, alt) and sorted(inf["list_bits"]) == sorted(inf["prod_bits"])) else "entry_differs_from_formula"
        ctx.violation(dict(base, kind=kind, entry="inputs"),
                      "%s inputs: recorded %r, formula %r (input shapes %r with producer bits %r; reported list %r; "
                      "shapes read %r)" % (name, raw_in, ref_in, inf["in_shapes"], inf["prod_bits"], inf["list_bits"],
                                           got_shapes), {"placement": [wm, am, io_, ms]})
    # ---- outputs
    raw_out = seg["write"]["ret"]
    oq = inf["rep"].get("output_quantizer")
    if oq:
      ref_out = E.mem_write(inf["is_out"], ops.numel(inf["n"]["shape"]), inf["out_bits"], am, ms, io_)[0]
      a = seg["write"]["args"]
      if inf["is_out"] and inf["consumed"] and not a["io"]:
        # qtools' graph treats only layers without consumers as output layers
        ctx.observe("model output that is also consumed by another layer is not written as an output tensor",
                    {"layer": name, "cls": cls})
        ref_out = E.mem_write(False, ops.numel(inf["n"]["shape"]), inf["out_bits"], am, ms, io_)[0]
      elif (a["io"], a["mode"], a["min_sram_size"], a["rd_wr_on_io"]) != (inf["is_out"], am, ms, io_):
        ctx.violation(dict(base, kind="memory_call_arguments_differ", tensor="output"),
                      "%s: write called with %r; layer is_output=%r placement=%r" % (name, a, inf["is_out"], (am, ms, io_)), None)
      rshape = oq.get("shape")
      if rshape is not None and [int(d) for d in list(rshape)[1:]] != inf["n"]["shape"]:
        ctx.violation(dict(base, kind="reported_tensor_shape_differs", tensor="output"),
                      "%s: reported output shape %r, tensor shape %r" % (name, rshape, inf["n"]["shape"]), None)
      elif not close(raw_out, ref_out):
        ctx.violation(dict(base, kind="entry_differs_from_formula", entry="outputs"),
                      "%s outputs: recorded %r, formula %r (%d elements x %r bits)" % (
                          name, raw_out, ref_out, ops.numel(inf["n"]["shape"]), inf["out_bits"]),
                      {"placement": [wm, am, io_, ms]})
    # ---- parameters
    raw_par = seg["param"]["ret"]
    pa = seg["param"]["args"]
    if (pa["mode"], pa["min_sram_size"], pa["rd_wr_on_io"]) != (wm, ms, io_):
      ctx.violation(dict(base, kind="memory_call_arguments_differ", tensor="parameters"),
                    "%s: parameter read called with %r; placement %r" % (name, pa, (wm, ms, io_)), None)
    ref_par = 0.0
    n = inf["n"]
    wrep, brep = inf["rep"].get("weight_quantizer"), inf["rep"].get("bias_quantizer")
    shapes_ok = True
    if n["kind"] in ("conv", "dw", "dense"):
      true_w, true_b = true_param_sizes(n)
      if wrep is None:
        ctx.violation(dict(base, kind="weight_quantizer_not_reported"), "layer %s" % name, None)
        shapes_ok = False
      else:
        if wrep.get("shape") is not None and numel(_shape_list(wrep["shape"]), False) != true_w:
          ctx.violation(dict(base, kind="reported_tensor_size_differs", tensor="kernel"),
                        "%s: reported kernel shape %r, the kernel has %d elements" % (name, wrep.get("shape"), true_w), None)
          shapes_ok = False
        ref_par += E.mem_read(False, true_w, float(wrep["bits"]), wm, ms, io_)[0]
        if n["use_bias"]:
          if brep is None:
            ctx.violation(dict(base, kind="bias_quantizer_not_reported"), "layer %s uses a bias" % name, None)
            shapes_ok = False
          else:
            if brep.get("shape") is not None and numel(_shape_list(brep["shape"]), False) != true_b:
              ctx.violation(dict(base, kind="reported_tensor_size_differs", tensor="bias"),
                            "%s: reported bias size %r, the bias has %d elements (kernel %r x %d in, %s)" % (
                                name, brep.get("shape"), true_b, n["kernel"] if "kernel" in n else None,
                                n["in_shape"][-1], n["cls"]), None)
              shapes_ok = False
            ref_par += E.mem_read(False, true_b, float(brep["bits"]), wm, ms, io_)[0]
        elif brep is not None:
          ctx.violation(dict(base, kind="bias_reported_for_layer_without_bias"), "layer %s" % name, None)
          shapes_ok = False
    if shapes_ok and not close(raw_par, ref_par):
      ctx.violation(dict(base, kind="entry_differs_from_formula", entry="parameters"),
                    "%s parameters: recorded %r, formula %r" % (name, raw_par, ref_par),
                    {"placement": [wm, am, io_, ms], "weight": wrep, "bias": brep})
    # ---- op cost
    kind, ref_op, trace, fac = op_expectation(inf)
    got_trace = [(o["fn"], o["args"]["x"]) for o in seg["ops"]]
    want_trace = [("OP.%s.%s" % (f, o), x) for (f, o, x) in trace]
    raw_op = None
    if [g[0] for g in got_trace] != [w[0] for w in want_trace] or \
       any(not close(g[1], w[1]) for g, w in zip(got_trace, want_trace)):
      ctx.violation(dict(base, kind="op_gate_trace_differs"),
                    "%s (%s): gates consulted for the op cost %r, documented %r" % (name, cls, got_trace, want_trace), None)
    else:
      rets = [o["ret"] for o in seg["ops"]]
      if kind == "mac":
        raw_op = fac[0] * (fac[1] * rets[0] + rets[1])
      elif kind == "merge":
        raw_op = (fac[2] - 1) * fac[0] * fac[1] * rets[0]
      elif kind == "pool":
        raw_op = fac[0] * rets[0]
      else:
        raw_op = 0.0
      if not close(raw_op, ref_op):
        ctx.violation(dict(base, kind="entry_differs_from_formula", entry="op_cost"),
                      "%s op: gates returned %r -> %r, formula %r" % (name, rets, raw_op, ref_op), None)
      if kind == "none" and cls in ARITH_SKIPPED and fac[0] and ent["op_cost"] == 0:
        ctx.violation(dict(base, kind="op_cost_zero_for_arithmetic_layer"),
                      "%s (%s) reports operation_count=%r but op_cost 0: the class is skipped by energy_estimate" % (
                          name, cls, fac[0]), None)
    ctx.count("energy.formula_checked", 4)
    ctx.evals(4)
    # ---- entries are the rounded contributions
    pairs = [("inputs", raw_in), ("outputs", raw_out), ("parameters", raw_par)]
    if raw_op is not None:
      pairs.append(("op_cost", raw_op))
    for k, raw in pairs:
      ctx.evals(1)
      if abs(ent[k] - raw) > 0.005 + 1e-9 * abs(raw) + 1e-9:
        ctx.violation(dict(base, kind="entry_is_not_the_recorded_contribution", entry=k),
                      "%s.%s = %r, recorded contribution %r" % (name, k, ent[k], raw), {"placement": [wm, am, io_, ms]})
    if raw_op is None:
      raw_op = ent["op_cost"]
    running += (raw_in + raw_out + raw_par + raw_op)
  # --- conservation: total == int(sum of recorded contributions)
  if set(names) <= set(info):
    ctx.evals(1)
    ctx.count("energy.conservation_checked")
    okv = {int(running)}
    if abs(running - round(running)) < 1e-6:
      okv |= {int(round(running)), int(round(running)) - 1}
    if total not in okv:
      ctx.violation({"part": "energy", "kind": "total_is_not_the_sum_of_recorded_contributions"},
                    "total_cost=%r, recorded contributions sum to %r" % (total, running),
                    {"placement": [wm, am, io_, ms]})


def true_param_sizes(n):
  if n["kind"] == "dense":
    return n["in_shape"][-1] * n["units"], n["units"]
  k = 1
  for x in n["kernel"]:
    k *= x
  cin = n["in_shape"][-1]
  if n["kind"] == "dw":
    return k * cin * n["depth_multiplier"], cin * n["depth_multiplier"]
  return k * (cin // n["groups"]) * n["filters"], n["filters"]


def check_extract(ctx, q, cfg, e):
  for setting in SETTINGS:
    s = cfg.include_energy if setting is None else setting
    tag = "live_cfg" if setting is None else ("no_default" if "default" not in setting else
                                              ("all_keys" if len(setting) == 1 else "overrides"))
    s_before = copy.deepcopy(s)
    e_before = copy.deepcopy(e)
    exact, per_layer = E.selected_sum(s, e)
    ok, got = ctx.call({"part": "extract_sum", "setting": tag}, q.extract_energy_sum, s, e)
    if ok:
      ctx.evals(1)
      ctx.count("energy.sums_checked")
      okv = {math.floor(exact - 1e-6), math.floor(exact + 1e-6)}
      if not isinstance(got, int) or got not in okv:
        ctx.violation({"part": "extract_sum", "kind": "sum_is_not_the_sum_of_selected_entries", "setting": tag},
                      "extract_energy_sum=%r, selected entries sum to %r" % (got, exact), {"setting": s})
    ok, prof = ctx.call({"part": "extract_profile", "setting": tag}, q.extract_energy_profile, s, e)
    if ok:
      ctx.evals(1)
      ctx.count("energy.profiles_checked")
      bad = None
      if set(prof) != set(per_layer):
        bad = "layers %r vs %r" % (sorted(prof), sorted(per_layer))
      else:
        for name, want in per_layer.items():
          if abs(prof[name].get("total", float("nan")) - want) > 1e-6 or prof[name].get("energy") != e[name]["energy"]:
            bad = "%s: total %r, selected entries sum to %r" % (name, prof[name].get("total"), want)
            break
      if bad:
        ctx.violation({"part": "extract_profile", "kind": "profile_is_not_the_selected_entries", "setting": tag},
                      bad, {"setting": s})
    if s != s_before or e != e_before:
      ctx.violation({"part": "extract_sum", "kind": "arguments_mutated", "setting": tag},
                    "extract_energy_sum/profile changed the caller's setting or energy dictionary", None)
