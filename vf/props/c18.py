"""C18 - bit widths reported for a concrete model bound the values it really produces."""
import json
import random
from fractions import Fraction

import numpy as np

from vf.gen.models import Qd, _Names
from vf.ref import types as ty

PID = "C18"
RULE = ("one case = a generated quantized model: 1..3 weight layers (QDense, QConv1D, QConv2D, QDepthwiseConv2D) "
        "with QActivation between, +- bias, fan-in N chosen around powers of two (2^L, 2^L+1), weight quantizers "
        "{fixed numeric alpha, auto_po2, po2 incl. max_value<=1, binary, ternary}, activations {quantized_relu, "
        "quantized_bits, binary, ternary}, weights random or saturated (all +-top code, sign patterns); inputs are "
        "points of the source quantizer's lattice: random, all-max, all-min and per-channel sign-aligned extremal "
        "inputs. QTools(...)._layer_map is read and every observed pre-activation, weight, bias and activation value "
        "(float32 -> Fraction) must be a member of the reported type's value lattice; analyze_accumulator must bound "
        "the observed output magnitudes. Non-trivial = distinct (model, weight pattern) cases whose worst-case sum "
        "comes within 2 bits of the reported range (counted), hashed.")
ANCHORS = [("qkeras/qtools/generate_layer_data_type_map.py", 605, 795), ("qkeras/qtools/qgraph.py", 199, 286),
           ("qkeras/qtools/qgraph.py", 325, 392), ("qkeras/qtools/qgraph.py", 411, 434),
           ("qkeras/qtools/qtools_util.py", 261, 351), ("qkeras/estimate.py", 57, 223)]
ASSUMPTIONS = [
    "bit budgets keep every partial sum exactly representable in float32 (cases beyond 2^23 LSBs are skipped and counted)",
    "value lattices of the reported types come from vf/ref/types.py (independent of the repository's helpers)",
    "auto_po2 kernels follow the documented flow: model_save_quantized_weights (eager) before QTools(model_weights_already_quantized=True)",
    "the estimator is evaluated on models whose stored weights are already quantized (so raw == quantized weights)",
]
TIMEOUT = {"quick": 1200, "thorough": 5400}
WFAM = ["fixed", "fixed", "auto_po2", "po2", "po2_le1", "po2_mv", "binary", "ternary", "sbinary", "sternary"]


def thresholds(tier):
  return {"models": 40, "layers_checked": 50, "preactivation_values_checked": 900, "weight_values_checked": 190,
          "activation_values_checked": 120, "estimator_layers_checked": 100, "near_worst_case_cases": 20,
          "distinct_nontrivial": 10}


def wq_of(fam, rnd):
  b = rnd.choice([2, 3, 4, 5])
  if fam == "fixed" and rnd.random() < 0.2:
    # the smallest signed formats: {-2,-1,0,1} and {-1,-0.5,0,0.5} are four-valued, not ternary
    return Qd("quantized_bits", bits=2, integer=rnd.choice([1, 1, 0]), symmetric=0, alpha=1.0)
  if fam == "fixed":
    return Qd("quantized_bits", bits=b, integer=rnd.choice([0, 1]), symmetric=rnd.choice([1, 0]), alpha=1.0)
  if fam == "auto_po2":
    return Qd("quantized_bits", bits=max(b, 3), integer=rnd.choice([0, 1]), symmetric=1, alpha="auto_po2")
  if fam == "po2":
    return Qd("quantized_po2", bits=rnd.choice([3, 4]))
  if fam == "po2_le1":
    return Qd("quantized_po2", bits=rnd.choice([3, 4]), max_value=1.0)
  if fam == "po2_mv":      # a cap that is not itself a power of two: the largest code is the rounded cap
    return Qd("quantized_po2", bits=rnd.choice([4, 5]), max_value=rnd.choice([3.0, 6.0, 12.0, 5.0]))
  if fam == "binary":
    return Qd("binary", alpha=1.0)
  if fam == "sbinary":       # the stochastic members of the two families: the same value sets at inference
    return Qd("stochastic_binary", alpha=1.0)
  if fam == "sternary":
    return Qd("stochastic_ternary", alpha=1.0)
  return Qd("ternary", alpha=1.0)


def cases(tier, seed):
  n = 96 if tier == "quick" else 1500
  out = []
  FOCUS = [("seq", "auto_po2"), ("seq", "auto_po2"), ("vec", "po2_mv"), ("img", "po2_mv"), ("seq", "po2_mv"), ("img", "auto_po2"),
           ("vec", "sbinary"), ("img", "sternary"), ("vec", "fixed", "relu1"), ("img", "fixed", "relu1"),
           ("vec", "fixed"), ("seq", "fixed")]
  nf = 24 if tier == "quick" else 240
  for i in range(n + nf):
    rnd = random.Random(seed * 6007 + i)
    nm = _Names()
    layers = []
    mode = rnd.choice(["vec", "vec", "img", "seq"])
    focus = FOCUS[(i - n) % len(FOCUS)] if i >= n else None
    if focus:
      mode = focus[0]
    fan = rnd.choice([1, 2, 3, 4, 5, 8, 9, 16, 17])
    if mode == "vec":
      shape = [fan]
    elif mode == "img":
      k = rnd.choice([1, 2, 3])
      cin = rnd.choice([1, 2, 3])
      shape = [k + rnd.choice([0, 0, 1]), k + rnd.choice([0, 0, 1]), cin]
    else:
      k = rnd.choice([1, 2, 3])
      shape = [k + rnd.choice([0, 1, 2]), rnd.choice([1, 2, 4])]
    src = rnd.choice([Qd("quantized_bits", bits=rnd.choice([3, 4, 6]), integer=rnd.choice([0, 1, 2]), symmetric=1),
                      Qd("quantized_bits", bits=rnd.choice([3, 4]), integer=0, symmetric=0, keep_negative=False),
                      Qd("quantized_relu", bits=rnd.choice([3, 4]), integer=rnd.choice([0, 1]))])
    relu1 = bool(focus and len(focus) > 2) or rnd.random() < 0.05
    if relu1:      # a one-bit ReLU input type: levels {0, 2^(integer-1)}, not {0, 1}
      src = Qd("quantized_relu", bits=1, integer=rnd.choice([0, 0, 2]))
    rank = len(shape) + 1
    nw = rnd.randint(1, 3)
    for li in range(nw):
      fam = rnd.choice(WFAM)
      if focus and li == 0:
        fam = focus[1]
      ub = bool(rnd.randint(0, 1))
      if relu1 and li == 0 and focus:
        ub = False
      bq = rnd.choice([Qd("quantized_bits", bits=rnd.choice([4, 6]), integer=rnd.choice([0, 2]), symmetric=1),
                       Qd("quantized_po2", bits=4)]) if ub else None
      kw = {"use_bias": ub, "bias_quantizer": bq}
      if rank == 2:
        layers.append({"t": "QDense", "name": nm("dense"), "kw": dict(kw, units=rnd.randint(1, 4), kernel_quantizer=wq_of(fam, rnd)), "fam": fam})
      elif rank == 4:
        t = rnd.choice(["QConv2D", "QConv2D", "QDepthwiseConv2D"])
        if t == "QConv2D":
          layers.append({"t": t, "name": nm("conv"), "kw": dict(kw, filters=rnd.randint(1, 3), kernel_size=[shape[0] if li == 0 else 1, shape[1] if li == 0 else 1] if rnd.random() < 0.6 else [1, 1],
                                                                  padding=rnd.choice(["valid", "same"]), kernel_quantizer=wq_of(fam, rnd)), "fam": fam})
        else:
          layers.append({"t": t, "name": nm("dw"), "kw": dict(kw, kernel_size=[min(2, shape[0]), min(2, shape[1])], padding="same",
                                                               depthwise_quantizer=wq_of(fam, rnd)), "fam": fam})
      else:
        layers.append({"t": "QConv1D", "name": nm("conv1d"), "kw": dict(kw, filters=rnd.randint(1, 3), kernel_size=rnd.choice([1, 2, min(3, shape[0])]),
                                                                        padding=rnd.choice(["valid", "same", "causal"]), kernel_quantizer=wq_of(fam, rnd)), "fam": fam})
      if li < nw - 1 or rnd.random() < 0.5:
        aq = rnd.choice([Qd("quantized_relu", bits=rnd.choice([1, 2, 3, 4]), integer=rnd.choice([0, 1])),
                         Qd("quantized_bits", bits=rnd.choice([3, 4]), integer=rnd.choice([0, 1]), symmetric=1),
                         Qd("binary", alpha=1.0), Qd("ternary", alpha=1.0),
                         # a bound the quantizer ignores (is_quantized_clip defaults to True): values still reach the top code
                         Qd("quantized_relu", bits=rnd.choice([5, 6]), integer=rnd.choice([3, 4]), relu_upper_bound=rnd.choice([3.0, 6.0]))])
        layers.append({"t": "QActivation", "name": nm("act"), "kw": {"activation": aq}})
      if rank == 4 and li < nw - 1 and rnd.random() < 0.3:
        layers.append({"t": "Flatten", "name": nm("flat"), "kw": {}})
        rank = 2
      if rank == 3 and li < nw - 1 and rnd.random() < 0.3:
        layers.append({"t": "Flatten", "name": nm("flat"), "kw": {}})
        rank = 2
    for j, l in enumerate(layers):
      l["in"] = [j - 1]
    out.append({"spec": {"input": shape, "layers": layers}, "src": src,
                "pattern": rnd.choice(["random", "random", "saturated_pos", "saturated_mixed", "saturated_neg", "bias_dominant"])
                if not focus else rnd.choice(["saturated_pos", "saturated_mixed", "saturated_neg"]),
                "idx": i, "seed": seed})
    # every 8th random case: one output channel with mixed signs and the largest weight mass, the others one-sided
    # with a slightly smaller mass - with a one-sided input range the one-sided channels reach the larger sums
    # (pattern substituted after the draws: the other cases stay what they were)
    if not focus and i % 8 == 5:
      out[-1]["pattern"] = "one_sided"
    # every 8th random case: unsigned bias quantizers with a fine LSB (signed sum of products + unsigned bias)
    if not focus and i % 8 == 3:
      for l in layers:
        if l["kw"].get("use_bias") and l["kw"].get("bias_quantizer") is not None:
          l["kw"]["bias_quantizer"] = Qd("quantized_bits", bits=8, integer=0, keep_negative=False)
  return out


def frac(v):
  return Fraction(float(v))


def reported(q):
  """Type of a reported quantizer object.  For a power-of-two type whose max_val_po2 is not itself a power
  of two the cap is read the way qtools itself reads it (quantizer_impl.get_exp: exponent ceil(log2(max)),
  which is also what quantized_po2 emits: it clips to max_value and then rounds in log space)."""
  t = ty.from_reported(q)
  if t.kind == "po2" and t.max_val is not None:
    import math
    mv = float(t.max_val)
    if mv > 0 and 2.0 ** math.floor(math.log2(mv)) != mv:
      t = ty.po2(t.bits, t.signed, ty.p2(int(math.ceil(math.log2(mv)))))
  return t


def entry_get(e, key):
  if isinstance(e, dict):
    return e.get(key)
  return getattr(e, key, None)


def why_not_shifted(t, v):
  """Membership for a fixed type whose int_bits may exceed bits - sign (negative fractional bits): the
  scale-adjusted accumulators of auto_po2 kernels.  value = k * 2^(int_bits - (bits - sign))."""
  step = Fraction(2) ** (t.int_bits - (t.bits - t.signed))
  k = v / step
  lo, hi = (-(1 << (t.bits - 1)), (1 << (t.bits - 1)) - 1) if t.signed else (0, (1 << t.bits) - 1)
  if k > hi:
    return "above_max"
  if k < lo:
    return "below_min"
  if k.denominator != 1:
    return "off_grid"
  return None


def check_values(ctx, t, values, sig, what, counter, zero_ok=True, shifted=False):
  from vf.ref import types as ty
  vals = np.unique(np.asarray(values, dtype=np.float64))
  ctx.count(counter, int(vals.size))
  ctx.evals(int(vals.size))
  for v in vals:
    why = why_not_shifted(t, frac(v)) if (shifted and t.kind == "fixed") else ty.why_not(t, frac(v), zero_ok=zero_ok)
    if why == "above_max" and t.kind == "fixed" and not shifted and ty.vmin(t) is not None and frac(v) == -ty.vmin(t):
      # the all-positive extreme +N*max of a two's-complement range [-2^k, 2^k - lsb]
      why = "positive_extreme_equals_minus_min"
    if why is not None:
      ctx.violation(dict(sig, kind=what + "_not_representable_in_reported_type", why=why),
                    "%s value %r is not a value of the reported type %s (%s)" % (what, float(v), ty.describe(t), why),
                    {"value": float(v), "type": ty.describe(t)})
      return False
  return True


def run_case(case, ctx):
  import contextlib
  import io
  import tensorflow as tf
  import tensorflow.keras.backend as K
  from qkeras import estimate
  from qkeras import utils as qutils
  from qkeras.qtools import run_qtools
  from vf.gen import models as gm
  from vf.ref import types as ty
  tf.keras.backend.clear_session()
  K.set_learning_phase(0)
  spec, pattern = case["spec"], case["pattern"]
  rng = np.random.default_rng(case["seed"] * 4001 + case["idx"])
  try:
    model = gm.build_q(spec)
  except Exception as e:  # pylint: disable=broad-except
    ctx.skip("model_not_buildable:%s" % type(e).__name__)
    return
  src_q = gm._inst(case["src"])
  wlayers = [l for l in model.layers if type(l).__name__ in ("QDense", "QConv1D", "QConv2D", "QDepthwiseConv2D")]
  fams = {l["name"]: l.get("fam") for l in spec["layers"]}
  # ---- weights: random or saturated raw values (the layer's quantizer maps them to codes)
  for l in wlayers:
    ws = l.get_weights()
    k = ws[0]
    if pattern == "random":
      kv = rng.normal(0, 0.8, size=k.shape)
    elif pattern == "bias_dominant":
      kv = rng.normal(0, 0.05, size=k.shape)
      if rng.random() < 0.5 and k.shape[-1] > 1 and type(l).__name__ != "QDepthwiseConv2D":
        kv[..., 0] = 0.0          # a pruned filter: its output is the bias alone
    elif pattern == "one_sided":
      kv = np.full(k.shape, 0.5)
      flat = kv.reshape(-1, k.shape[-1])
      alt = np.where(np.arange(flat.shape[0]) % 2 == 0, 0.5, -0.5)
      alt[0] = 0.75
      flat[:, 0] = alt
      kv = flat.reshape(k.shape)
    elif pattern == "saturated_pos":
      kv = np.full(k.shape, 64.0)
    elif pattern == "saturated_neg":
      kv = np.full(k.shape, -64.0)
    else:
      kv = rng.choice([-64.0, 64.0], size=k.shape)
    new = [kv.astype(np.float32)]
    if len(ws) > 1:
      new.append((rng.normal(0, 1.0, size=ws[1].shape) if pattern == "random" else rng.choice([-64.0, 64.0], size=ws[1].shape)).astype(np.float32)
                 if pattern != "bias_dominant" else rng.choice([-0.5, 0.5, 1.0], size=ws[1].shape).astype(np.float32))
    if pattern == "one_sided" and len(new) > 1:
      new[1] = np.zeros(ws[1].shape, np.float32)       # no bias term: the estimate is the weight sums alone
    if pattern == "bias_dominant" and len(new) > 1 and kv.ndim >= 2 and not np.any(kv[..., 0]) and new[1].shape[0] == kv.shape[-1]:
      # the pruned filter carries the largest bias of the layer (saturating the bias quantizer), the others a small one
      b = np.full(new[1].shape, 0.0625, np.float32) * rng.choice([-1.0, 1.0], size=new[1].shape).astype(np.float32)
      b[0] = 64.0 * rng.choice([-1.0, 1.0])
      new[1] = b
    l.set_weights(new)
  # ---- inputs from the source lattice
  xshape = tuple(spec["input"])
  lat = np.unique(np.asarray(src_q(tf.constant(np.linspace(-8, 8, 4097).astype(np.float32)))))
  xmin, xmax = float(lat.min()), float(lat.max())
  small = lat[np.abs(lat) <= max(0.25, float(np.min(np.abs(lat[lat != 0]))) if np.any(lat != 0) else 0.25)]
  # the first 4 rows only use lattice points of small magnitude: the estimator is also evaluated on that sub-range
  batches = [rng.choice(small, size=(4,) + xshape).astype(np.float32), rng.choice(lat, size=(6,) + xshape).astype(np.float32),
             np.full((1,) + xshape, xmax, np.float32), np.full((1,) + xshape, xmin, np.float32)]
  base = {"pattern": "saturated" if pattern.startswith("saturated") else "random"}
  # documented flow: export first (eager), then QTools on the already-quantized model
  with contextlib.redirect_stdout(io.StringIO()), contextlib.redirect_stderr(io.StringIO()):
    ok, hw = ctx.call(dict(base, op="model_save_quantized_weights"), qutils.model_save_quantized_weights, model)
  if not ok:
    return
  # sign-aligned extremal input for the first weight layer (one output channel)
  l0 = wlayers[0]
  k0 = l0.get_weights()[0]
  if type(l0).__name__ == "QDense":
    for j in range(min(k0.shape[1], 2)):
      batches.append(np.where(k0[:, j] > 0, xmax, xmin).reshape((1,) + xshape).astype(np.float32))
      batches.append(np.where(k0[:, j] > 0, xmin, xmax).reshape((1,) + xshape).astype(np.float32))
  elif type(l0).__name__ == "QConv2D" and tuple(k0.shape[:2]) == xshape[:2]:
    for j in range(min(k0.shape[3], 2)):
      batches.append(np.where(k0[..., j] > 0, xmax, xmin).reshape((1,) + xshape).astype(np.float32))
      batches.append(np.where(k0[..., j] > 0, xmin, xmax).reshape((1,) + xshape).astype(np.float32))
  x = np.concatenate(batches, axis=0)
  probe = tf.keras.Model(model.input, [l.output for l in model.layers[1:]])
  ok, outs = ctx.call(dict(base, op="forward"), lambda: probe(tf.constant(x), training=False))
  if not ok:
    return
  if not isinstance(outs, (list, tuple)):
    outs = [outs]
  outs = {l.name: np.asarray(o) for l, o in zip(model.layers[1:], outs)}
  ins = {}
  prev = x
  for l in model.layers[1:]:
    ins[l.name] = prev
    prev = outs[l.name]
  near = False
  base0 = base
  for inference in (False, True):
    # the same observed tensors are checked against the map built for training and for inference
    base = dict(base0, inference=inference)
    with contextlib.redirect_stdout(io.StringIO()), contextlib.redirect_stderr(io.StringIO()):
      ok, qt = ctx.call(dict(base, op="QTools"), lambda: run_qtools.QTools(
          model, process="horowitz", source_quantizers=[src_q], is_inference=inference, weights_path=None,
          keras_quantizer="fp32", keras_accumulator="fp32", for_reference=False,
          model_weights_already_quantized=True, hw_weight_dict=hw))
    if not ok:
      continue
    ctx.count("models")
    lmap = qt._layer_map["layer_data_type_map"]  # pylint: disable=protected-access
    by_name = {l.name: e for l, e in lmap.items()}
    for l in model.layers[1:]:
      cn = type(l).__name__
      e = by_name.get(l.name)
      if e is None:
        continue
      sig = dict(base, layer=cn)
      if cn in ("QDense", "QConv1D", "QConv2D", "QDepthwiseConv2D"):
        fam = fams.get(l.name)
        sig["weights"] = fam
        ctx.count("layers_checked")
        qs = l.get_quantizers()
        ws = l.get_weights()
        wt = reported(entry_get(e, "weight_quantizer"))
        # the tensor the running layer multiplies with: its quantizer applied to the stored (exported) weight;
        # this is also the call that leaves quantizer.scale in the state QTools read
        kq = np.asarray(qs[0](tf.constant(ws[0]))) if qs[0] is not None else np.asarray(ws[0])
        if len(ws) > 1 and qs[1] is not None:
          ws = [ws[0], np.asarray(qs[1](tf.constant(ws[1])))]
        scale = None
        if fam == "auto_po2":
          scale = np.asarray(qs[0].scale, dtype=np.float64)
          # the reported weight type describes the integer part; the stored weight carries the po2 scale
          kcodes = kq.astype(np.float64) / np.broadcast_to(scale, kq.shape)
          check_values(ctx, wt, kcodes, sig, "weight", "weight_values_checked")
        else:
          check_values(ctx, wt, kq, sig, "weight", "weight_values_checked")
        if l.use_bias:
          bt = reported(entry_get(e, "bias_quantizer"))
          check_values(ctx, bt, ws[1], sig, "bias", "weight_values_checked")
        acc = entry_get(e, "fused_accumulator") if fam == "auto_po2" else entry_get(e, "accumulator")
        at = reported(acc.output)
        pre = outs[l.name]
        # float32 exactness guard: every partial sum must stay below 2^23 LSBs
        lsb_in = float(np.min(np.abs(ins[l.name][ins[l.name] != 0]))) if np.any(ins[l.name] != 0) else 1.0
        lsb_w = float(np.min(np.abs(kq[kq != 0]))) if np.any(kq != 0) else 1.0
        fan_in = int(np.prod(kq.shape[:-1])) if cn != "QDepthwiseConv2D" else int(np.prod(kq.shape[:2]))
        if np.abs(pre).max() / max(lsb_in * lsb_w, 1e-30) > 2.0 ** 22:
          ctx.skip("beyond_float32_exactness")
          continue
        okv = check_values(ctx, at, pre, sig, "preactivation", "preactivation_values_checked", shifted=(fam == "auto_po2"))
        # how close did the workload come to the reported range?
        if at.kind == "fixed" and okv:
          top = float(ty.vmax(at))
          m = float(np.abs(pre).max())
          if m > 0 and top / m < 4.0:
            near = True
      elif cn == "QActivation":
        ot = reported(entry_get(e, "output_quantizer"))
        check_values(ctx, ot, outs[l.name], dict(sig, activation=type(l.quantizer).__name__), "activation", "activation_values_checked")
  base = base0
  if near:
    ctx.count("near_worst_case_cases")
    ctx.nontrivial(json.dumps(spec, sort_keys=True), pattern)
  # ---- weight-based estimator: once on all inputs, once on the small-magnitude rows only
  for tag, rows in (("all", slice(None)), ("small", slice(0, 4))):
    wl = list(wlayers)
    ranges = {l.name: (float(ins[l.name][rows].min()), float(ins[l.name][rows].max())) for l in wl}
    degenerate = [l.name for l in wl if ranges[l.name] == (0.0, 0.0) or
                  (not np.any(l.get_weights()[0]) and not (l.use_bias and np.any(l.get_weights()[1])))]
    def zero_channel(l):
      # an output channel without any signal (all-zero weights, zero bias) makes the estimator take log2(0) just
      # like an all-zero layer does
      ws_ = l.get_weights()
      k_ = np.asarray(ws_[0])
      k_ = k_.reshape(k_.shape[0] * k_.shape[1], -1) if type(l).__name__ == "QDepthwiseConv2D" else k_.reshape(-1, k_.shape[-1])
      b_ = np.asarray(ws_[1]).reshape(-1) if l.use_bias and len(ws_) > 1 else np.zeros(k_.shape[1])
      if b_.shape[0] != k_.shape[1]:
        return False
      return bool(np.any(~np.any(k_ != 0, axis=0) & (b_ == 0)))
    if not degenerate:
      degenerate = [l.name for l in wl if zero_channel(l)]
    if degenerate:
      ctx.skip("estimator_not_evaluated_zero_signal_layer")
      ctx.observe("analyze_accumulator on a layer with an all-zero kernel or a (0,0) input range takes log2(0)", None)
      continue
    with contextlib.redirect_stdout(io.StringIO()):
      ok, sizes = ctx.call(dict(base, op="analyze_accumulator", layers=",".join(sorted({type(l).__name__ for l in wl}))),
                           estimate.analyze_accumulator, model, ranges)
    if not ok:
      continue
    for l in wl:
      ctx.count("estimator_layers_checked")
      m = float(np.abs(outs[l.name][rows]).max())
      if m > 0 and l.name in sizes and 2.0 ** sizes[l.name] < m * (1 - 1e-6):
        # would a bound that adds the bias *after* scaling the weight sums by the input range have held?
        ws = l.get_weights()
        k = np.asarray(ws[0], dtype=np.float64)
        if type(l).__name__ == "QDepthwiseConv2D":
          k = k.reshape(k.shape[0] * k.shape[1], -1)              # taps x (cin*dm) output channels
        else:
          k = k.reshape(-1, k.shape[-1])                          # fan-in x output channels
        b = np.asarray(ws[1], dtype=np.float64) if l.use_bias else np.zeros(k.shape[1])
        lo_, hi_ = ranges[l.name]
        pos, neg = np.where(k > 0, k, 0).sum(0), np.where(k < 0, k, 0).sum(0)
        top = pos * hi_ + neg * lo_ + b if True else None
        bot = neg * hi_ + pos * lo_ + b
        correct = float(np.max(np.maximum(np.abs(top), np.abs(bot))))
        # F-C18-2 multiplies the bias by the input-range terms: it can only shrink / drop the bias when one side of
        # the range has magnitude below 1 (or is absent); with |x_min| >= 1 and x_max >= 1 the bias is over-counted
        shrinkable = (hi_ < 1.0) or (lo_ > -1.0)
        mech = "bias_term_mishandled" if (l.use_bias and np.any(b != 0) and shrinkable and
                                          2.0 ** np.ceil(np.log2(max(correct, 1e-300))) >= m * (1 - 1e-6)) else "other"
        ctx.violation({"kind": "estimator_below_observed_output", "layer": type(l).__name__,
                       "bias": bool(l.use_bias), "mechanism": mech},
                      "%s: analyze_accumulator = %d bits but |output| reaches %g for inputs in %r (a bound adding the bias after the range scaling gives %g)" % (
                          l.name, sizes[l.name], m, ranges[l.name], correct),
                      {"range": ranges[l.name], "rows": tag})
  ctx.sample({"layers": [(l["t"], l.get("fam")) for l in spec["layers"]], "input": spec["input"], "pattern": pattern,
              "source_quantizer": case["src"], "n_inputs": int(x.shape[0])})
