"""C01 - fixed-point quantizers emit only representable codes."""
import numpy as np

from vf.gen import lattice
from vf.ref import fixed

PID = "C01"
RULE = ("one case = one quantizer configuration of the fixed-point lattice "
        "(class x bits x integer x keep_negative x symmetric x alpha x slope x "
        "clip mode x sigmoid flavour); per case the probe set holds every code "
        "and every rounding breakpoint of [lo-3, hi+3] with +-1 and +-2 ulp "
        "neighbours, zeros, denormals, FLT_MIN, magnitudes up to 2^22 steps, "
        "plus random tensors of rank 1..4. Non-trivial = distinct "
        "(configuration, input) with the input within 2 ulp of a breakpoint/"
        "code or beyond a saturation edge; counted by hashing.")
ANCHORS = [("qkeras/quantizers.py", 1320, 1452), ("qkeras/quantizers.py", 2360, 2418),
           ("qkeras/quantizers.py", 957, 1019), ("qkeras/quantizers.py", 2597, 2605),
           ("qkeras/quantizers.py", 2663, 2671), ("qkeras/quantizers.py", 1109, 1132),
           ("qkeras/quantizers.py", 1460, 1497), ("qkeras/quantizers.py", 2420, 2457)]
ASSUMPTIONS = [
    "inputs are finite float32 below 2^23 steps (2^24 is the statement's bound)",
    "negative_slope*2^(bits-1) < 1, off-grid relu_upper_bound and use_sigmoid=1 "
    "are outside the statement (observed, not enforced)",
]
KERAS3_PASS = True
TIMEOUT = {"quick": 600, "thorough": 3000}


def thresholds(tier):
  return {"live.pytest_runs": 1, "live.elements": 30,
          "events.quantized_bits": 100, "events.quantized_linear": 100,
          "events.quantized_relu": 100, "events.quantized_tanh": 20,
          "events.quantized_sigmoid": 20, "range_checked": 20,
          "minmax_checked": 500, "distinct_nontrivial": 50000}


def cases(tier, seed, keras3=False):
  from vf import live
  # the repository's own tests as a workload for the membership monitor come first (long cases)
  return live.cases(tier, "fixed", keras3) + list(lattice.fixed_configs(tier, seed, keras3=keras3))


def variant(cfg, fmt):
  kw = cfg["kw"]
  if fmt.sign_format:
    return "sign1bit"
  if cfg["cls"] == "quantized_relu":
    v = "leaky" if kw.get("negative_slope") else "plain"
    if kw.get("relu_upper_bound") is not None:
      v += "+ub"
    elif kw.get("is_quantized_clip") is False:
      v += "+noclip"
    return v
  if cfg["cls"] in ("quantized_tanh", "quantized_sigmoid"):
    return fmt.surrogate.split("_")[1]
  return "signed" if kw.get("keep_negative", True) else "unsigned"


def check_membership(ctx, cfg, fmt, x, y, base, tag):
  """The C01 membership oracle on one (x, y) pair of arrays."""
  from vf import qenv
  k = fixed.output_code(fmt, y)
  ctx.evals(k.size)
  if not np.all(np.isfinite(y)):
    ctx.violation(dict(base, kind="non_finite"), "non-finite output",
                  {"x": x[~np.isfinite(y)][:4].tolist(), "tag": tag})
    return k
  tol = fixed.code_tolerance(fmt, x, y, k)
  off = np.abs(k - np.round(k)) > tol
  if off.any():
    i = int(np.argmax(off))
    ctx.violation(dict(base, kind="off_lattice"),
                  "output %r is not a multiple of the step (code %r)" % (float(y.flat[i]), float(k.flat[i])),
                  {"x": float(x.flat[i]), "y": float(y.flat[i]), "code": float(k.flat[i]),
                   "step": fmt.step, "alpha": fmt.alpha, "tag": tag})
  kr = np.round(k)
  if (kr < fmt.lo).any():
    i = int(np.argmin(kr))
    ctx.violation(dict(base, kind="below_lowest_code"),
                  "code %d below lowest code %d" % (kr.flat[i], fmt.lo),
                  {"x": float(x.flat[i]), "y": float(y.flat[i]), "lo": fmt.lo, "tag": tag})
  if (kr > fmt.hi).any():
    i = int(np.argmax(kr))
    ctx.violation(dict(base, kind="above_highest_code"),
                  "code %d above highest code %d" % (kr.flat[i], fmt.hi),
                  {"x": float(x.flat[i]), "y": float(y.flat[i]), "hi": fmt.hi, "tag": tag})
  return k


def run_tensor_alpha(cfg, ctx):
  """quantized_linear with a constant per-channel scale: every column is the scalar-scale format of its own alpha."""
  from vf import qenv
  cls, kw, alphas = cfg["cls"], cfg["kw"], cfg["tensor_alpha"]
  fmts = [fixed.make({"cls": cls, "kw": dict(kw, alpha=a)}) for a in alphas]
  base = {"cls": cls, "variant": variant(cfg, fmts[0]), "alpha": "tensor"}
  ok, q = ctx.call(base, qenv.build, {"cls": cls, "kw": dict(kw, alpha=np.array([alphas], dtype=np.float32))})
  if not ok:
    return
  rng = np.random.default_rng(cfg["seed"] * 7919 + cfg["idx"])
  cols = [fixed.probes(f, rng=rng, max_codes=512) for f in fmts]
  n = min(len(c) for c in cols)
  x = np.stack([c[np.linspace(0, len(c) - 1, n).astype(int)] for c in cols], axis=1).astype(np.float32)
  ok, y = ctx.call(base, qenv.call, q, x)
  if not ok:
    return
  ctx.count("events." + cls)
  ctx.count("tensor_alpha_cases")
  okm, mn = ctx.call(dict(base, op="min"), lambda: qenv.as_np(q.min()))
  okM, mx = ctx.call(dict(base, op="max"), lambda: qenv.as_np(q.max()))
  for c, f in enumerate(fmts):
    check_membership(ctx, cfg, f, x[:, c], y[:, c], base, "tensor alpha, column %d (alpha %g)" % (c, alphas[c]))
    if okm and okM:
      ctx.count("minmax_checked")
      mnc = np.broadcast_to(np.asarray(mn, dtype=np.float64), (1, len(alphas)))[0, c] if np.size(mn) in (1, len(alphas)) else float(np.min(mn))
      mxc = np.broadcast_to(np.asarray(mx, dtype=np.float64), (1, len(alphas)))[0, c] if np.size(mx) in (1, len(alphas)) else float(np.max(mx))
      if float(y[:, c].min()) < mnc - 1e-7 * abs(mnc):
        ctx.violation(dict(base, kind="min_not_enclosing"),
                      "column with alpha %g: min() gives %g but output %g observed" % (alphas[c], mnc, float(y[:, c].min())), None)
      if float(y[:, c].max()) > mxc + 1e-7 * abs(mxc):
        ctx.violation(dict(base, kind="max_not_enclosing"),
                      "column with alpha %g: max() gives %g but output %g observed" % (alphas[c], mxc, float(y[:, c].max())), None)
  ctx.nontrivial_many((cls, "tensor_alpha", sorted(kw.items(), key=str)), x.ravel())


def run_case(cfg, ctx):
  if isinstance(cfg, dict) and cfg.get("part") == "live":
    from vf import live
    return live.run(cfg, ctx)
  from vf import qenv
  if cfg.get("tensor_alpha"):
    return run_tensor_alpha(cfg, ctx)
  fmt = fixed.make(cfg)
  cls = cfg["cls"]
  base = {"cls": cls, "variant": variant(cfg, fmt),
          "alpha": qenv.alpha_class(cfg["kw"].get("alpha"))}
  with qenv.sigmoid_mode(cfg.get("sigmoid")):
    ok, q = ctx.call(base, qenv.build, cfg)
    if not ok:
      return
    if cfg.get("route"):
      ctx.count("route." + cfg["route"])
    rng = np.random.default_rng(cfg["seed"] * 7919 + cfg["idx"])
    maxc = 4096 if ctx.tier == "quick" else 70000
    x = fixed.probes(fmt, rng=rng, max_codes=maxc)
    ok, y = ctx.call(base, qenv.call, q, x)
    if not ok:
      return
    ctx.count("events." + cls)
    if not fmt.supported:
      k = fixed.output_code(fmt, y)
      bad = (np.abs(k - np.round(k)) > 1e-6) | (np.round(k) < fmt.lo) | (np.round(k) > fmt.hi)
      if bad.any():
        ctx.observe("out_of_statement:" + fmt.note, {"cfg": cfg, "x": float(x[bad][0]), "y": float(y[bad][0])})
      ctx.skip("unsupported_configuration")
      return
    k = check_membership(ctx, cfg, fmt, x, y, base, "probes")
    if cfg["idx"] % 5 == 0:
      # the same probes through a traced tf.function (how a layer in a compiled model calls the quantizer)
      okg, yg = ctx.call(dict(base, op="tf.function"), qenv.call_graph, q, x)
      if okg:
        ctx.count("graph_calls_checked")
        check_membership(ctx, cfg, fmt, x, yg, base, "probes, traced call")
        if not np.array_equal(yg, y) and fixed.is_dyadic(fmt.alpha) and not fmt.surrogate.endswith("_real"):
          i = int(np.argmax(yg != y))
          ctx.violation(dict(base, kind="traced_call_differs_from_eager_call"),
                        "x=%r: eager %r, inside tf.function %r" % (float(x[i]), float(y[i]), float(yg[i])), None)
    ctx.nontrivial_many((cls, sorted(cfg["kw"].items(), key=str), cfg.get("sigmoid")), x)
    ctx.sample({"cfg": cfg, "format": repr(fmt), "n_probes": int(x.size),
                "first_probes": x[:6].tolist(), "first_outputs": y[:6].tolist()})
    vals = np.unique(y)
    dyadic = fixed.is_dyadic(fmt.alpha)
    n_distinct = vals.size if dyadic else np.unique(np.round(k)).size   # float noise of a non-dyadic scale is not a new code
    ctx.seen("bits_seen", int(fmt.bits))
    if n_distinct > 2 ** fmt.bits:
      ctx.violation(dict(base, kind="too_many_values"),
                    "%d distinct outputs for a %d-bit format" % (n_distinct, fmt.bits),
                    {"n": int(n_distinct)})
    reached = set(np.round(k).astype(np.int64).tolist())
    all_reached = reached >= set(range(fmt.lo, fmt.hi + 1))
    if all_reached:
      ctx.count("all_codes_reached")
    else:
      ctx.count("not_all_codes_reached")

    # min()/max() enclose every output
    okm, mn = ctx.call(dict(base, op="min"), lambda: qenv.as_np(q.min()))
    okM, mx = ctx.call(dict(base, op="max"), lambda: qenv.as_np(q.max()))
    if okm and okM:
      ctx.count("minmax_checked")
      mn, mx = float(np.min(mn)), float(np.max(mx))
      slack = 0.0 if dyadic else 8 * float(np.spacing(np.float32(max(abs(mn), abs(mx), float(np.abs(x).max())))))
      if float(y.min()) < mn - 1e-7 * abs(mn) - slack:
        ctx.violation(dict(base, kind="min_not_enclosing"),
                      "min()=%g but output %g observed" % (mn, float(y.min())),
                      {"x": float(x[int(np.argmin(y))]), "min()": mn, "y": float(y.min())})
      if float(y.max()) > mx + 1e-7 * abs(mx) + slack:
        ctx.violation(dict(base, kind="max_not_enclosing"),
                      "max()=%g but output %g observed" % (mx, float(y.max())),
                      {"x": float(x[int(np.argmax(y))]), "max()": mx, "y": float(y.max())})

    # range() == reachable set, where the library defines it
    kw = cfg["kw"]
    has_range = False
    if cls == "quantized_bits":
      has_range = (not kw.get("symmetric")) and kw.get("keep_negative", True) and \
          kw.get("alpha") in (None, 1.0)
    elif cls == "quantized_relu":
      has_range = (not kw.get("negative_slope")) and kw.get("is_quantized_clip", True) and \
          not kw.get("use_sigmoid")
    elif cls == "quantized_linear":
      has_range = True
    if has_range and all_reached and dyadic:
      okr, r = ctx.call(dict(base, op="range"), lambda: qenv.as_np(q.range()))
      if okr:
        ctx.count("range_checked")
        rs = set(np.asarray(r, dtype=np.float32).ravel().tolist())
        ys = set(vals.tolist())
        if rs != ys:
          ctx.violation(dict(base, kind="range_mismatch"),
                        "range() != reachable set: only in range() %s, only reachable %s" % (
                            sorted(rs - ys)[:4], sorted(ys - rs)[:4]),
                        {"range": sorted(rs)[:16], "reachable": sorted(ys)[:16]})
    elif all_reached and dyadic and not has_range and cls in ("quantized_bits", "quantized_relu"):
      # configurations for which the unchanged library refuses to enumerate (assert / no definition): if
      # range() does answer, the answer has to be the reachable set as well
      try:
        r = qenv.as_np(q.range())
      except Exception:      # pylint: disable=broad-except
        r = None
        ctx.count("range_not_defined")
      if r is not None and cls == "quantized_bits" and kw.get("alpha") in (None, 1.0):
        ctx.count("range_checked_beyond_documented_domain")
        rs = set(np.asarray(r, dtype=np.float32).ravel().tolist())
        ys = set(vals.tolist())
        if rs != ys:
          ctx.violation(dict(base, kind="range_mismatch"),
                        "range() answers for this configuration but is not the reachable set: only in range() %s, only reachable %s" % (
                            sorted(rs - ys)[:4], sorted(ys - rs)[:4]), {"range": sorted(rs)[:16], "reachable": sorted(ys)[:16]})

    # random tensors of every rank
    nrand = 4 if ctx.tier == "quick" else 16
    for t in qenv.random_tensors(rng, nrand, fmt.step * fmt.in_scale * max(2.0, (fmt.hi - fmt.lo) / 3.0),
                                  bound=fixed.domain_bound(fmt)):
      ok, yt = ctx.call(base, qenv.call, q, t)
      if not ok:
        return
      if yt.shape != t.shape:
        ctx.violation(dict(base, kind="shape_changed"), "shape %s -> %s" % (t.shape, yt.shape), None)
        continue
      check_membership(ctx, cfg, fmt, t.ravel(), yt.ravel(), base, "random rank %d" % t.ndim)
      ctx.seen("ranks", t.ndim)
      if okm and okM and (float(yt.min()) < mn - 1e-7 * abs(mn) - slack or float(yt.max()) > mx + 1e-7 * abs(mx) + slack):
        ctx.violation(dict(base, kind="max_not_enclosing" if float(yt.max()) > mx else "min_not_enclosing"),
                      "min()/max() = %g/%g do not enclose %g..%g" % (mn, mx, float(yt.min()), float(yt.max())),
                      None)
