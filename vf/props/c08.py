"""C08 - stochastic rounding: adjacent code, unbiased in training, exact at inference."""
import itertools
import random

import numpy as np

from vf.ref import fixed, po2

PID = "C08"
RULE = ("one case = (quantizer family with stochastic rounding or stochastic_* class, option set, "
        "tensor rank 1..3); training phase: every one of K equidistributed draws u_j=(j+1/2)/K "
        "injected at tf.random.uniform plus 4..8 genuinely seeded draws must give a code adjacent to "
        "the clipped input, the grid mean must equal the input to 1/K step, codes must be fixed "
        "points; inference phase: bit-identical to the deterministic twin and repeatable. "
        "Non-trivial = distinct (configuration, input element) pairs whose input is not a code "
        "(so that the draw matters), hashed.")
ANCHORS = [("qkeras/quantizers.py", 575, 613), ("qkeras/quantizers.py", 641, 648),
           ("qkeras/quantizers.py", 1918, 1921), ("qkeras/quantizers.py", 2227, 2230),
           ("qkeras/quantizers.py", 2747, 2753)]
ASSUMPTIONS = [
    "randomness enters only through tf.random.uniform (intercept count > 0 is asserted per training case)",
    "unbiasedness is decided for the library's use of the uniform stream (grid injection), not for TF's generator",
    "binary/ternary codes are too coarse for E[q(x)] = x; for them membership, adjacency and inference equality are enforced",
    "po2: exponent adjacency uses a 3e-5 log2 band; |x| in [1e-2, 2^(max_exp+20)]",
]
TIMEOUT = {"quick": 900, "thorough": 3000}


def thresholds(tier):
  return {"train.fixed": 150, "train.po2": 30, "train.bt": 30, "inference_pairs": 200,
          "rng_intercepts": 5000, "grid_means_checked": 150, "distinct_nontrivial": 10000}


def cases(tier, seed):
  rnd = random.Random(seed + 5)
  out = []
  P = itertools.product
  bitsr = [2, 3, 4, 6] if tier == "quick" else [2, 3, 4, 5, 6, 8]
  for bits, integer, keep, sym, alpha in P(bitsr, [0, 1], [True, False], [0, 1], [None, 2.0]):
    out.append({"fam": "fixed", "cls": "quantized_bits",
                "kw": {"bits": bits, "integer": integer, "keep_negative": keep, "symmetric": sym, "alpha": alpha}})
    if alpha is None:
      out.append({"fam": "fixed", "cls": "quantized_linear",
                  "kw": {"bits": bits, "integer": integer, "keep_negative": keep, "symmetric": sym}})
  # the one-bit sign formats (two codes, no zero): an input between them is rounded to either with its own probability
  for integer in (0, 1):
    out.append({"fam": "fixed", "cls": "quantized_linear", "kw": {"bits": 1, "integer": integer, "keep_negative": True, "symmetric": 1}})
  for bits, integer, slope in P(bitsr, [0, 1, 2], [0.0, 0.25, 0.5]):
    if slope and slope * 2 ** (bits - 1) < 1:
      continue
    out.append({"fam": "fixed", "cls": "quantized_relu", "kw": {"bits": bits, "integer": integer, "negative_slope": slope}})
  for bits, sym in P(bitsr, [False, True]):
    out.append({"fam": "fixed", "cls": "quantized_tanh", "kw": {"bits": bits, "symmetric": sym}})
    out.append({"fam": "fixed", "cls": "quantized_sigmoid", "kw": {"bits": bits, "symmetric": sym}})
    out.append({"fam": "fixed", "cls": "quantized_tanh", "kw": {"bits": bits, "symmetric": sym, "use_real_tanh": True}})
  for bits, mv in P([3, 4, 5, 6], [None, 2.0, 0.5, 16.0]):
    out.append({"fam": "po2", "cls": "quantized_po2", "kw": {"bits": bits, "max_value": mv}})
    for slope in (0, 0.25):
      out.append({"fam": "po2", "cls": "quantized_relu_po2", "kw": {"bits": bits, "max_value": mv, "negative_slope": slope}})
  # floor mode together with the stochastic flag: inference must still be the floor exponent of the deterministic twin
  for bits, mv in P([3, 4], [None, 2.0]):
    out.append({"fam": "po2", "cls": "quantized_po2", "kw": {"bits": bits, "max_value": mv, "log2_rounding": "floor"}, "inference_only": True})
    out.append({"fam": "po2", "cls": "quantized_relu_po2", "kw": {"bits": bits, "max_value": mv, "log2_rounding": "floor"},
                "inference_only": True})
  # data-dependent scales with the stochastic flag: inference must equal the flag-less configuration, also at ties
  for bits, alpha in P([3, 4], ["auto_po2", "auto"]):
    out.append({"fam": "dyadic", "cls": "quantized_bits", "kw": {"bits": bits, "integer": 0, "alpha": alpha}, "inference_only": True})
  # quadratic approximation: the codes are 4^k; in training the draw picks between two of *those*
  for bits in (4, 5):
    out.append({"fam": "po2", "cls": "quantized_po2", "kw": {"bits": bits, "quadratic_approximation": True}, "quadratic": True})
    out.append({"fam": "po2", "cls": "quantized_relu_po2", "kw": {"bits": bits, "quadratic_approximation": True}, "quadratic": True})
  for alpha in (None, 1.0, 2.0, "auto", "auto_po2"):
    for use_01 in (False, True):
      out.append({"fam": "bt", "cls": "binary", "kw": {"alpha": alpha, "use_01": use_01}})
    out.append({"fam": "bt", "cls": "stochastic_binary", "kw": {"alpha": alpha}, "twin": "binary"})
  for alpha in ("auto", "auto_po2"):
    out.append({"fam": "bt", "cls": "ternary", "kw": {"alpha": alpha}})
    out.append({"fam": "bt", "cls": "stochastic_ternary", "kw": {"alpha": alpha}, "twin": "ternary"})
  # options the stochastic classes share with their deterministic parents (the twin is built from the
  # same constructor arguments, not from the instance's own attributes)
  for alpha in ("auto", "auto_po2"):
    for unrolls in (1, 2, 3):
      out.append({"fam": "bt", "cls": "stochastic_ternary", "kw": {"alpha": alpha, "number_of_unrolls": unrolls},
                  "twin": "ternary"})
    out.append({"fam": "bt", "cls": "stochastic_ternary",
                "kw": {"alpha": alpha, "temperature": 2.0, "use_real_sigmoid": False}, "twin": "ternary",
                "twin_drop": ["temperature", "use_real_sigmoid"]})
    out.append({"fam": "bt", "cls": "stochastic_binary",
                "kw": {"alpha": alpha, "temperature": 2.0, "use_real_sigmoid": False}, "twin": "binary",
                "twin_drop": ["temperature", "use_real_sigmoid"]})
  for alpha, th in ((None, None), (1.0, 0.5), (2.0, None)):
    out.append({"fam": "bt", "cls": "stochastic_ternary", "kw": {"alpha": alpha, "threshold": th}, "twin": "ternary",
                "inference_only": True})
  full = []
  for c in out:
    for rank in (1, 2, 3):
      d = dict(c)
      d["rank"] = rank
      full.append(d)
  rnd.shuffle(full)
  for i, c in enumerate(full):
    c["idx"], c["seed"] = i, seed
  return full


def shape_for(n, rank):
  if rank == 1:
    return (n,)
  if rank == 2:
    return (n // 4, 4)
  return (n // 8, 2, 4)


def run_case(case, ctx):
  from vf import qenv
  from vf.monitors import rng as rngmod
  import tensorflow.keras.backend as K
  fam, cls, kw = case["fam"], case["cls"], dict(case["kw"])
  rank = case["rank"]
  base = {"cls": cls, "rank_ge2": rank >= 2}
  rng = np.random.default_rng(case["seed"] * 2741 + case["idx"])
  Kg = 64 if ctx.tier == "quick" else 512
  n = 96
  stoch_kw = dict(kw)
  if not cls.startswith("stochastic_"):
    stoch_kw["use_stochastic_rounding"] = True
  twin_cls = case.get("twin", cls)
  try:
    with rngmod.controlled() as stream:
      # ------------------------------------------------ inputs
      if fam == "fixed":
        fmt = fixed.make({"cls": cls, "kw": kw})
        span = (fmt.hi - fmt.lo + 4) * fmt.step * fmt.in_scale
        lo_x = (fmt.lo - 2) * fmt.step * fmt.in_scale
        x = rng.uniform(lo_x, lo_x + span, size=n)
        if fmt.surrogate.startswith(("tanh", "sigmoid")):
          x = rng.uniform(-3, 3, size=n)
        if fmt.surrogate == "relu" and fmt.neg_slope:
          x[: n // 3] = rng.uniform(-(abs(fmt.lo) + 2) * fmt.step / fmt.neg_slope, 0, size=n // 3)
        # exact codes among the inputs
        codes = rng.integers(fmt.lo, fmt.hi + 1, size=12)
        xc = fixed.surrogate_inverse(fmt, fmt.offset + fmt.step * codes)
        x[-12:] = np.where(np.isfinite(xc), xc, 0.0)
        # exact half-way ties (even and odd floor codes): inference must round them as the deterministic twin does
        ties = rng.integers(fmt.lo, fmt.hi, size=12) + 0.5
        xt_ = fixed.surrogate_inverse(fmt, fmt.offset + fmt.step * ties)
        x[-24:-12] = np.where(np.isfinite(xt_), xt_, 0.0)
        x = x.astype(np.float32)
      elif fam == "dyadic":
        x = (rng.integers(-48, 49, size=n) / 32.0).astype(np.float32)      # many exact half-way points of a po2 scale
      elif fam == "po2":
        mn, mx = po2.exponent_interval(cls, kw["bits"], kw.get("max_value"))
        top = min(mx, 12) + 2
        x = (2.0 ** rng.uniform(-6, top, size=n)) * rng.choice([-1.0, 1.0], size=n)
        x[-8:] = 2.0 ** rng.integers(-5, min(mx, 10), size=8)
        x = x.astype(np.float32)
      else:
        x = rng.normal(0, 1.0, size=n).astype(np.float32)
        x[:4] = [0.0, -0.0, 0.33, -0.33]
      x = x.reshape(shape_for(n, rank))

      # ------------------------------------------------ training phase
      if not case.get("inference_only"):
        K.set_learning_phase(1)
        ok, q = ctx.call(dict(base, phase="train"), qenv.build, {"cls": cls, "kw": stoch_kw})
        if not ok:
          return
        before = stream.calls
        outs = []
        for j in range(Kg):
          stream.set_grid(j, Kg)
          ok, y = ctx.call(dict(base, phase="train"), qenv.call, q, x)
          if not ok:
            return
          outs.append((y.astype(np.float64), qenv.as_np(getattr(q, "scale", None))))
        real = []
        # extreme but legal draws of a float32 uniform generator: 0 and 1 - 2^-23
        for u_edge in (0.0, 1.0 - 2.0 ** -23):
          stream.set_const(u_edge)
          ok, y = ctx.call(dict(base, phase="train"), qenv.call, q, x)
          if not ok:
            return
          real.append((y.astype(np.float64), qenv.as_np(getattr(q, "scale", None))))
        for sd in range(4 if ctx.tier == "quick" else 8):
          stream.set_real(case["seed"] * 100 + sd)
          ok, y = ctx.call(dict(base, phase="train"), qenv.call, q, x)
          if not ok:
            return
          real.append((y.astype(np.float64), qenv.as_np(getattr(q, "scale", None))))
        ctx.count("rng_intercepts", stream.calls - before)
        if stream.calls == before and not (fam == "po2" and False):
          ctx.violation(dict(base, kind="training_phase_made_no_random_draw"),
                        "stochastic configuration never called tf.random.uniform in the training phase", None)
        ctx.count("train." + fam)
        train_oracle(ctx, case, base, x, outs, real, Kg)
      # ------------------------------------------------ inference phase
      K.set_learning_phase(0)
      stream.set_real(case["seed"])
      ok, qs = ctx.call(dict(base, phase="inference"), qenv.build, {"cls": cls, "kw": stoch_kw})
      twin_kw = {k: v for k, v in kw.items() if k not in case.get("twin_drop", ())}
      ok2, qd = ctx.call(dict(base, phase="inference"), qenv.build, {"cls": twin_cls, "kw": twin_kw})
      if not (ok and ok2):
        return
      ok, ya = ctx.call(dict(base, phase="inference"), qenv.call, qs, x)
      if not ok:
        return
      ok, yb = ctx.call(dict(base, phase="inference"), qenv.call, qd, x)
      ok2, ya2 = ctx.call(dict(base, phase="inference"), qenv.call, qs, x)
      if not (ok and ok2):
        return
      ctx.count("inference_pairs")
      ctx.evals(x.size)
      if not np.array_equal(ya, yb):
        i = int(np.argmax(ya != yb))
        ctx.violation(dict(base, kind="inference_differs_from_deterministic_twin"),
                      "x=%r: stochastic config %r, deterministic %r" % (float(x.flat[i]), float(ya.flat[i]), float(yb.flat[i])),
                      {"kw": kw})
      if not np.array_equal(ya, ya2):
        ctx.violation(dict(base, kind="inference_not_repeatable"), "two inference calls differ", {"kw": kw})
  finally:
    K.set_learning_phase(0)


def train_oracle(ctx, case, base, x, outs, real, Kg):
  fam, cls, kw = case["fam"], case["cls"], case["kw"]
  xf = x.astype(np.float64)
  allouts = outs + real
  if fam == "fixed":
    fmt = fixed.make({"cls": cls, "kw": kw})
    e = fixed.exact_code(fmt, x)
    slack = fmt.slack
    is_code = np.abs(e - np.round(e)) <= slack
    ks = np.array([fixed.output_code(fmt, y) for (y, _) in allouts])
    ctx.evals(ks.size)
    ctx.nontrivial_many((cls, sorted(kw.items(), key=str)), x[~is_code])
    ltol = 1e-9 + 4 * slack      # the one-bit linear format's codes +-qs/2 are computed as (sign-ish) - 0.5 in float32
    half = (np.abs(ks * 2 - np.round(ks * 2)) < 1e-9) & (np.abs(ks - np.round(ks)) > ltol)
    if half.any():
      j, i = np.argwhere(half.reshape(len(allouts), -1))[0]
      ctx.violation(dict(base, kind="half_code_emitted_in_training"),
                    "x=%r -> %r = %g steps (a half code; stochastic_round called with precision 0.5)" % (
                        float(x.flat[i]), float(allouts[j][0].flat[i]), ks[j].flat[i]), {"kw": kw})
    off = (np.abs(ks - np.round(ks)) > ltol) & ~half
    if off.any():
      j, i = np.argwhere(off.reshape(len(allouts), -1))[0]
      ctx.violation(dict(base, kind="off_lattice_in_training"),
                    "x=%r -> code %g" % (float(x.flat[i]), ks[j].flat[i]), {"kw": kw})
    lo_ok = np.floor(e - slack)
    hi_ok = np.ceil(e + slack)
    far = ((ks < lo_ok - 1e-9) | (ks > hi_ok + 1e-9))
    if far.any():
      j, i = np.argwhere(far.reshape(len(allouts), -1))[0]
      ctx.violation(dict(base, kind="not_adjacent_code"),
                    "x=%r (=%g steps) -> code %g, allowed %g..%g" % (float(x.flat[i]), e.flat[i], ks[j].flat[i], lo_ok.flat[i], hi_ok.flat[i]),
                    {"kw": kw, "draw": int(j)})
    kg = ks[:Kg]
    mean = kg.mean(axis=0)
    ctx.count("grid_means_checked")
    bias = np.abs(mean - e)
    tol = 1.0 / Kg + 2.0 ** -20 + slack
    if (bias > tol).any():
      i = int(np.argmax(bias))
      ctx.violation(dict(base, kind="biased_in_training"),
                    "x=%r = %g steps, mean over %d equidistributed draws = %g steps (|bias| %g > %g)" % (
                        float(x.flat[i]), e.flat[i], Kg, mean.flat[i], bias.flat[i], tol), {"kw": kw})
    moved = is_code[None, ...] & (np.abs(ks - np.round(e)[None, ...]) > 1e-9) & ~half
    if slack > 0:
      # tanh/sigmoid surrogates are only known to `slack`: under the two extreme draws (u = 0, u = 1 - 2^-23) an
      # input that is a code up to float error may legitimately land on either neighbour
      moved[Kg:Kg + 2] = False
    if moved.any():
      j, i = np.argwhere(moved.reshape(len(allouts), -1))[0]
      ctx.violation(dict(base, kind="code_input_changed"),
                    "input %r is the code %g but came out as %g" % (float(x.flat[i]), e.flat[i], ks[j].flat[i]), {"kw": kw})
    ctx.sample({"case": {"cls": cls, "kw": kw, "rank": case["rank"]}, "K": Kg, "x": x.ravel()[:3].tolist(),
                "exact_steps": e.ravel()[:3].tolist(), "grid_mean_steps": mean.ravel()[:3].tolist(),
                "codes_seen_for_x0": sorted(set(kg[:, ...].reshape(Kg, -1)[:, 0].tolist()))})
  elif fam == "po2":
    mv = kw.get("max_value")
    slope = float(kw.get("negative_slope", 0) or 0)
    mn, mx = po2.exponent_interval(cls, kw["bits"], mv)
    if cls == "quantized_po2":
      mag = np.abs(xf)
    else:
      mag = np.where(xf >= 0, xf, -xf * slope)
    rand = mag >= po2.EPS
    v = np.minimum(mag, mv) if mv is not None else mag
    with np.errstate(divide="ignore"):
      l = np.log2(np.where(rand, v, 1.0))
    lo_e = np.clip(np.floor(l - po2.BAND), mn, mx)
    hi_e = np.clip(np.ceil(l + po2.BAND), mn, mx)
    lo_e = np.where(rand, lo_e, mn)
    hi_e = np.where(rand, hi_e, mn)
    ys = np.array([y for (y, _) in allouts])
    ctx.evals(ys.size)
    ctx.nontrivial_many((cls, sorted(kw.items(), key=str)), x)
    m, ex = np.frexp(np.abs(ys))
    if (m != 0.5).any():
      j, i = np.argwhere((m != 0.5).reshape(len(allouts), -1))[0]
      ctx.violation(dict(base, kind="not_power_of_two_in_training"), "x=%r -> %r" % (float(x.flat[i]), ys[j].flat[i]), {"kw": kw})
      return
    ex = ex - 1
    if case.get("quadratic"):
      # only membership is claimed here: every emitted exponent is even (a code of the quadratic format)
      ctx.count("quadratic_training_membership_checked")
      odd = (ex % 2 != 0)
      if odd.any():
        j, i = np.argwhere(odd.reshape(len(allouts), -1))[0]
        ctx.violation(dict(base, kind="odd_exponent_from_quadratic_format_in_training"),
                      "x=%r -> 2^%d (the quadratic format only holds even exponents)" % (float(x.flat[i]), ex[j].flat[i]), {"kw": kw})
      return
    far = (ex < lo_e[None, ...]) | (ex > hi_e[None, ...])
    if far.any():
      j, i = np.argwhere(far.reshape(len(allouts), -1))[0]
      ctx.violation(dict(base, kind="not_adjacent_exponent"),
                    "x=%r -> 2^%d, allowed 2^%d..2^%d" % (float(x.flat[i]), ex[j].flat[i], lo_e.flat[i], hi_e.flat[i]), {"kw": kw})
    target = np.clip(v, 2.0 ** mn, 2.0 ** mx)
    target = np.where(rand, target, 2.0 ** mn)
    mean = np.abs(ys[:Kg]).mean(axis=0)
    ctx.count("grid_means_checked")
    rel = np.abs(mean - target) / target
    tol = 1.0 / Kg + 1e-4
    if (rel > tol).any():
      i = int(np.argmax(rel))
      ctx.violation(dict(base, kind="biased_in_training"),
                    "|x|=%r (clipped %g): mean |q| over %d equidistributed draws = %g" % (float(mag.flat[i]), target.flat[i], Kg, mean.flat[i]),
                    {"kw": kw})
    ctx.sample({"case": {"cls": cls, "kw": kw, "rank": case["rank"]}, "K": Kg, "x": x.ravel()[:3].tolist(),
                "grid_mean_abs": mean.ravel()[:3].tolist()})
  else:
    use_01 = bool(kw.get("use_01", False))
    allowed = (0.0, 1.0) if use_01 else ((-1.0, 1.0) if "binary" in cls else (-1.0, 0.0, 1.0))
    ctx.nontrivial_many((cls, sorted(kw.items(), key=str)), x)
    for (y, s_raw) in allouts:
      ctx.evals(y.size)
      s = np.broadcast_to(np.asarray(1.0 if s_raw is None else s_raw, dtype=np.float64), y.shape)
      ok = np.zeros(y.shape, dtype=bool)
      for a in allowed:
        ok |= np.abs(y - s * a) <= 4e-7 * np.maximum(np.abs(s), np.abs(xf)) + 1e-30
      if not ok.all():
        i = int(np.argmax(~ok))
        ctx.violation(dict(base, kind="code_outside_set_in_training"),
                      "x=%r -> %r with scale %r" % (float(x.flat[i]), float(y.flat[i]), float(s.flat[i])), {"kw": kw})
        break
