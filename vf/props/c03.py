"""C03 - power-of-two quantizers emit signed powers of two with in-range exponents."""
import itertools
import random

import numpy as np

from vf.ref import po2

PID = "C03"
RULE = ("one case = one (class, bits 2..8, max_value in {None, 2^k}, negative_slope, "
        "rounding mode) configuration; probes: for every exponent in [min_exp-3, max_exp+3] "
        "the points 2^e, sqrt2*2^e (+-1..3 ulp and +-2e-4 relative), 1.2*2^e, 1.7*2^e on "
        "both signs, zeros, denormals, the epsilon floor 1e-8..2e-7, the max_value edge "
        "+-1 ulp, log-uniform random values over 30 decades and random tensors of rank "
        "1..4. Non-trivial = distinct (configuration, input) pairs (hashed).")
ANCHORS = [("qkeras/quantizers.py", 2695, 2764), ("qkeras/quantizers.py", 2767, 2815),
           ("qkeras/quantizers.py", 2884, 2902), ("qkeras/quantizers.py", 3030, 3068)]
ASSUMPTIONS = [
    "float32 log2: inside |log2|x| - breakpoint| <= 3e-5 either neighbouring exponent is accepted",
    "|x| < 2^(max_exp+22) (float32 absorption of x + (-x + xq)); |x| < FLT_MIN counts as zero of either sign",
    "quadratic_approximation and non-power-of-two max_value are outside the statement (observed only)",
]
KERAS3_PASS = True
TIMEOUT = {"quick": 600, "thorough": 3000}


def thresholds(tier):
  return {"live.pytest_runs": 1, "live.elements": 400000,
          "events.quantized_po2": 60, "events.quantized_relu_po2": 100,
          "idempotence_checked": 60, "monotone_checked": 150, "distinct_nontrivial": 30000}


def cases(tier, seed, keras3=False):
  out = []
  bits_rng = range(2, 9) if tier == "quick" else list(range(2, 9)) + [9, 10]
  mvs = [None, 0.25, 0.5, 1.0, 2.0, 4.0, 16.0] + ([2.0 ** -4, 64.0, 1024.0] if tier == "thorough" else [])
  for bits in bits_rng:
    for mv in mvs:
      for mode in ("rnd", "floor"):
        out.append({"cls": "quantized_po2", "kw": {"bits": bits, "max_value": mv, "log2_rounding": mode}})
        for slope in (0, 0.5, 0.125):
          out.append({"cls": "quantized_relu_po2",
                      "kw": {"bits": bits, "max_value": mv, "negative_slope": slope, "log2_rounding": mode}})
  # observation-only corners
  for bits in (3, 5):
    out.append({"cls": "quantized_po2", "kw": {"bits": bits, "quadratic_approximation": True}, "observe": "quadratic"})
    out.append({"cls": "quantized_po2", "kw": {"bits": bits, "max_value": 3.0}, "observe": "non_po2_max_value"})
  random.Random(seed).shuffle(out)
  if keras3:
    out = out[::5]
  for i, c in enumerate(out):
    c["idx"], c["seed"] = i, seed
  from vf import live
  return live.cases(tier, "po2", keras3) + out


def platform_log2_short(v):
  """Per element of the float32 array v (same shape and element order as the tensor the quantizer sees):
  for exact powers of two 2^e, does the platform's float32 quotient log(v)/log(2) fall below e?  This is
  the mechanism of F-C03-3.  Computed with TensorFlow's own float32 log (not with repository code) on a
  tensor of the *same size*, because Eigen's vectorised and scalar log kernels differ in the last bit and
  which one an element gets depends on its position in the tensor."""
  import tensorflow as tf
  v = np.asarray(v, dtype=np.float32)
  safe = np.where(v > 0, v, np.float32(1.0))
  l = (tf.math.log(tf.constant(safe)) / np.log(2.0)).numpy().astype(np.float64)
  return (l < np.round(np.log2(safe.astype(np.float64)))) & (v > 0)


def check(ctx, cfg, q, x, base, tag):
  """x: float32 array (any sign). Runs the quantizer and applies the oracle."""
  from vf import qenv
  kw = cfg["kw"]
  cls = cfg["cls"]
  mv = kw.get("max_value")
  slope = float(kw.get("negative_slope", 0) or 0)
  mode = kw.get("log2_rounding", "rnd")
  min_exp, max_exp = po2.exponent_interval(cls, kw["bits"], mv)
  ok, y = ctx.call(base, qenv.call, q, x)
  if not ok:
    return None
  xf = x.astype(np.float64).ravel()
  yf = y.astype(np.float64).ravel()
  valid = np.ones(yf.shape, dtype=bool)
  ctx.state["valid"] = valid
  ctx.evals(yf.size)
  if cls == "quantized_po2" or slope == 0:
    mag0 = np.abs(xf) if cls == "quantized_po2" else np.where(xf < 0, 0.0, xf)
  else:
    mag0 = np.where(xf < 0, -xf * slope, xf)
  short_full = None
  if mode == "floor":
    m32 = mag0.astype(np.float32)
    if mv is not None:
      m32 = np.minimum(m32, np.float32(mv))
    short_full = platform_log2_short(m32.reshape(x.shape)).ravel()
  # (1) inputs below the epsilon floor map to 2^min_exp; when the input is more
  # than 2^22 times larger than that code, x + (-x + xq) absorbs the code in
  # float32 and the output is 0 / not a power of two.
  zone = (mag0 < po2.EPS * (1 + 1e-5)) & (mag0 >= 2.0 ** (min_exp + 22))
  if zone.any():
    mz, ez = np.frexp(np.abs(yf[zone]))
    badz = (yf[zone] == 0) | (mz != 0.5) | (ez - 1 != min_exp)
    if badz.any():
      i = int(np.argmax(badz))
      ctx.violation(dict(base, kind="below_epsilon_floor_code_absorbed"),
                    "q(%r) = %r instead of 2^%d (float32 absorption of the smallest code)" % (
                        float(xf[zone][i]), float(yf[zone][i]), min_exp),
                    {"x": float(xf[zone][i]), "y": float(yf[zone][i]), "min_exp": min_exp, "tag": tag})
    valid &= ~zone
    xf, yf = xf[~zone], yf[~zone]
    if short_full is not None:
      short_full = short_full[~zone]
  # (2) 2^min_exp below float32's normal range underflows to 0
  if min_exp < -126 and (yf == 0).any():
    ctx.violation(dict(base, kind="smallest_code_underflows_to_zero"),
                  "q(%r) = 0.0 (min_exp = %d is below float32's normal range)" % (xf[int(np.argmax(yf == 0))], min_exp),
                  {"x": float(xf[int(np.argmax(yf == 0))]), "min_exp": min_exp, "tag": tag})
    keep = yf != 0
    valid[np.flatnonzero(valid)[~keep]] = False
    xf, yf = xf[keep], yf[keep]
    if short_full is not None:
      short_full = short_full[keep]
  if not np.all(np.isfinite(yf)) or (yf == 0).any():
    i = int(np.argmax(~np.isfinite(yf) | (yf == 0)))
    ctx.violation(dict(base, kind="zero_or_non_finite"), "q(%r) = %r" % (xf[i], yf[i]), {"x": xf[i], "tag": tag})
    return y
  m, e = np.frexp(np.abs(yf))
  if (m != 0.5).any():
    i = int(np.argmax(m != 0.5))
    ctx.violation(dict(base, kind="not_power_of_two"), "q(%r) = %r" % (xf[i], yf[i]), {"x": xf[i], "y": yf[i], "tag": tag})
    return y
  e = (e - 1).astype(np.float64)
  for v in np.unique(e):
    ctx.seen("exponents:%s:%d:%s" % (cls, kw["bits"], mv), int(v))
  if (e < min_exp).any() or (e > max_exp).any():
    i = int(np.argmax((e < min_exp) | (e > max_exp)))
    ctx.violation(dict(base, kind="exponent_out_of_interval", side="low" if e[i] < min_exp else "high"),
                  "q(%r) = %r: exponent %d outside [%d, %d]" % (xf[i], yf[i], e[i], min_exp, max_exp),
                  {"x": xf[i], "y": yf[i], "tag": tag})
  if mv is not None and (np.abs(yf) > mv).any():
    i = int(np.argmax(np.abs(yf) > mv))
    ctx.violation(dict(base, kind="exceeds_max_value"), "q(%r) = %r > max_value %r" % (xf[i], yf[i], mv),
                  {"x": xf[i], "y": yf[i], "tag": tag})
  # sign rule and expected exponent
  tiny = np.abs(xf) < 1.1754944e-38           # zero of either sign on TF CPU
  ax = np.abs(xf)
  if cls == "quantized_po2":
    sign_exp = np.where(xf < 0, -1.0, 1.0)
    mag_in = ax
  else:
    neg = xf < 0
    if slope == 0:
      sign_exp = np.ones_like(xf)
      mag_in = np.where(neg, 0.0, ax)
    else:
      sign_exp = np.where(neg, -1.0, 1.0)
      mag_in = np.where(neg, ax * slope, ax)
  sgn = np.sign(yf)
  bad = (sgn != sign_exp) & ~tiny
  if cls == "quantized_relu_po2" and slope == 0:
    bad = sgn != 1.0
  if bad.any():
    i = int(np.argmax(bad))
    ctx.violation(dict(base, kind="wrong_sign"), "q(%r) = %r" % (xf[i], yf[i]), {"x": xf[i], "y": yf[i], "tag": tag})
  # expected exponent
  below = mag_in < po2.EPS * (1 - 1e-5)
  near_eps = np.abs(mag_in - po2.EPS) <= po2.EPS * 1e-5
  a, b = po2.expected_exponent(np.maximum(mag_in, 1e-300), min_exp, max_exp, mv, mode)
  a = np.where(below, min_exp, a)
  b = np.where(below, min_exp, b)
  a = np.where(near_eps, min_exp, a)
  wrong = ((e < a) | (e > b)) & ~(tiny & (cls == "quantized_po2") & False)
  if mode == "floor":
    # an input that *is* an admissible power of two has no tie: floor must return it.  The float band
    # above would accept one exponent less.  The unchanged tree does lose an exponent where the platform's
    # float32 log2 falls short of the integer (F-C03-3); anywhere else it is a different violation.
    mi = np.maximum(mag_in, 1e-300)
    if mv is not None:
      mi = np.minimum(mi, float(mv))
    mm, me = np.frexp(mi)
    exact = (mm == 0.5) & ~below & ~near_eps & (me - 1 >= min_exp) & (me - 1 <= max_exp)
    dropped = exact & (e == (me - 1) - 1)
    if dropped.any():
      short = short_full
      for flag in (True, False):
        sel = dropped & (short == flag)
        if sel.any():
          i = int(np.argmax(sel))
          ctx.violation(dict(base, kind="floor_mode_exact_power_of_two_drops_one_exponent", platform_log2_short=flag),
                        "q(%r) = %r: floor of an exact power of two lost one exponent (%d inputs)" % (xf[i], yf[i], int(sel.sum())),
                        {"x": xf[i], "y": yf[i], "n_bad": int(sel.sum()), "tag": tag})
    ctx.count("floor_exact_powers_checked", int(exact.sum()))
  if wrong.any():
    i = int(np.argmax(wrong))
    ctx.violation(dict(base, kind="wrong_exponent", mode=mode),
                  "q(%r) = %r: exponent %d, expected %d..%d" % (xf[i], yf[i], e[i], a[i], b[i]),
                  {"x": xf[i], "y": yf[i], "expected": [float(a[i]), float(b[i])], "tag": tag})
  return y


def run_case(cfg, ctx):
  if isinstance(cfg, dict) and cfg.get("part") == "live":
    from vf import live
    return live.run(cfg, ctx)
  from vf import qenv
  cls, kw = cfg["cls"], cfg["kw"]
  slope = float(kw.get("negative_slope", 0) or 0)
  base = {"cls": cls, "mode": kw.get("log2_rounding", "rnd"),
          "max_value": "none" if kw.get("max_value") is None else ("le1" if kw["max_value"] <= 1 else "gt1"),
          "leaky": bool(slope)}
  ok, q = ctx.call(base, qenv.build, cfg)
  if not ok:
    return
  mv = kw.get("max_value")
  min_exp, max_exp = po2.exponent_interval(cls, kw["bits"], mv)
  if mv is not None and mv < 2.0 ** min_exp:
    # inconsistent configuration: max_value lies below the smallest code of the bit width, no code can honour it
    ctx.observe("out_of_statement:max_value_below_smallest_code", {"cfg": cfg, "min_exp": min_exp})
    ctx.skip("observation_only_configuration")
    return
  rng = np.random.default_rng(cfg["seed"] * 31337 + cfg["idx"])
  xp = po2.probes(min_exp, max_exp, mv, rng, 256 if ctx.tier == "quick" else 2048)
  if cfg.get("observe"):
    y = qenv.call(q, xp)
    m, e = np.frexp(np.abs(y.astype(np.float64)))
    e = e - 1
    if (m != 0.5).any() or (e < min_exp).any() or (e > max_exp).any() or (mv is not None and (np.abs(y) > mv).any()):
      ctx.observe("out_of_statement:" + cfg["observe"],
                  {"cfg": cfg, "exponents": sorted(set(e.tolist()))[:12], "interval": [min_exp, max_exp]})
    ctx.skip("observation_only_configuration")
    return
  ctx.count("events." + cls)
  x = np.concatenate([-xp[::-1], xp]).astype(np.float32)   # sorted ascending
  if cls == "quantized_relu_po2" and mv is not None:
    # the ReLU variant saturates its straight-through operand at max_value, so positive inputs far beyond the
    # absorption bound of x + (-x + xq) are still in the domain: the output stays max_value's code
    big = (float(mv) * 2.0 ** np.array([23.0, 24.5, 30.0, 45.0])).astype(np.float32)
    big = big[np.isfinite(big)]
    x = np.concatenate([x, np.sort(big[big > x.max()])]).astype(np.float32)
  if slope:
    # keep slope*|x| inside the absorption bound as well
    pass
  y = check(ctx, cfg, q, x, base, "probes")
  if y is None:
    return
  ctx.nontrivial_many((cls, sorted(kw.items(), key=str)), x)
  ctx.sample({"cfg": cfg, "exponent_interval": [min_exp, max_exp], "n_probes": int(x.size),
              "probe_slice": x[x.size // 2 + 40: x.size // 2 + 45].tolist(),
              "outputs": y[x.size // 2 + 40: x.size // 2 + 45].tolist()})
  # monotone on each sign (and overall for the relu variant)
  valid = ctx.state["valid"]
  yf = y.astype(np.float64)
  neg, pos = (x < 0) & valid, (x > 0) & valid
  ctx.count("monotone_checked")
  for name, sel in (("neg", neg), ("pos", pos)):
    d = np.diff(yf[sel])
    if (d < 0).any():
      i = int(np.argmin(d))
      xs = x[sel]
      # a decrease between two inputs inside the same float band is a tie
      l0, l1 = np.log2(abs(float(xs[i]))), np.log2(abs(float(xs[i + 1])))
      if abs(l0 - l1) <= 2 * po2.BAND:
        ctx.skip("monotone_tie_in_band")
        continue
      ctx.violation(dict(base, kind="not_monotone", side=name),
                    "q(%r)=%r > q(%r)=%r" % (float(xs[i]), float(yf[sel][i]), float(xs[i + 1]), float(yf[sel][i + 1])), None)
  # min()/max() enclose
  okm, mn = ctx.call(dict(base, op="min"), lambda: float(np.min(qenv.as_np(q.min()))))
  okM, mx = ctx.call(dict(base, op="max"), lambda: float(np.max(qenv.as_np(q.max()))))
  if okm and okM:
    ctx.count("minmax_checked")
    yv, xv = yf[valid], x[valid]
    if yv.min() < mn:
      ctx.violation(dict(base, kind="min_not_enclosing"), "min()=%g, output %g" % (mn, yv.min()),
                    {"x": float(xv[int(np.argmin(yv))])})
    if yv.max() > mx:
      ctx.violation(dict(base, kind="max_not_enclosing"), "max()=%g, output %g" % (mx, yv.max()),
                    {"x": float(xv[int(np.argmax(yv))])})
  # idempotence when no leaky slope
  if not slope:
    ok, y2 = ctx.call(base, qenv.call, q, y)
    if ok:
      ctx.count("idempotence_checked")
      ne = (y2 != y) & valid
      ya = np.abs(yf)
      # outputs that, fed back, fall below the epsilon floor are re-mapped to the
      # smallest code: their own mechanism
      below = ne & (ya < po2.EPS)
      if below.any():
        i = int(np.argmax(below))
        ctx.violation(dict(base, kind="output_below_epsilon_floor_requantized_to_smallest_code"),
                      "x=%r q=%r qq=%r" % (float(x[i]), float(y[i]), float(y2[i])),
                      {"x": float(x[i]), "q": float(y[i]), "qq": float(y2[i])})
      ne &= ~below
      drop = ne & (np.abs(y2.astype(np.float64)) * 2 == ya) & (base["mode"] == "floor")
      if drop.any():
        short = platform_log2_short(np.abs(y)).ravel()
        for flag in (True, False):
          sel = drop & (short == flag)
          if sel.any():
            i = int(np.argmax(sel))
            ctx.violation(dict(base, kind="floor_mode_exact_power_of_two_drops_one_exponent", platform_log2_short=flag),
                          "x=%r q=%r qq=%r" % (float(x[i]), float(y[i]), float(y2[i])),
                          {"x": float(x[i]), "q": float(y[i]), "qq": float(y2[i]), "n_bad": int(sel.sum())})
      ne &= ~drop
      if ne.any():
        i = int(np.argmax(ne))
        ctx.violation(dict(base, kind="not_idempotent"),
                      "x=%r q=%r qq=%r" % (float(x[i]), float(y[i]), float(y2[i])),
                      {"x": float(x[i]), "q": float(y[i]), "qq": float(y2[i]), "n_bad": int(ne.sum())})
  # random tensors of every rank, log-uniform magnitudes
  for r in range(4 if ctx.tier == "quick" else 16):
    rank = 1 + r % 4
    shape = tuple(int(rng.integers(1, 6)) for _ in range(rank))
    top = np.log10(po2.domain_bound(max_exp, mv)) - 0.7
    t = (10.0 ** rng.uniform(-12, min(12, top), size=shape)) * rng.choice([-1.0, 1.0], size=shape)
    if r % 3 == 2:
      t.flat[0] = 0.0
    t = t.astype(np.float32)
    yt = check(ctx, cfg, q, t, base, "random rank %d" % rank)
    if yt is not None and yt.shape != t.shape:
      ctx.violation(dict(base, kind="shape_changed"), "%s -> %s" % (t.shape, yt.shape), None)
    ctx.seen("ranks", rank)
