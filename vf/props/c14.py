"""C14 - exported quantized weights equal inference weights and rebuild from the HW form."""
import copy
import json
import random

import numpy as np

from vf.gen import models as gm
from vf.gen.models import Qd

PID = "C14"
RULE = ("one case = a generated quantized model (chains over QDense, QConv1D/2D, QDepthwiseConv2D, QSeparableConv2D, "
        "QSimpleRNN/QLSTM/QGRU, QBatchNormalization incl. center/scale off and fusable positions, QAveragePooling2D / "
        "QGlobalAveragePooling2D, folded layers) x quantizer family {fixed numeric alpha, po2 (+relu_po2 bias), auto_po2, "
        "binary/ternary constant or auto, frozen auto_po2} x random weights incl. exact zeros and breakpoint values; "
        "model_save_quantized_weights is run once and twice with weight snapshots before each export; every layer's "
        "new weights are compared with the monitor's own application of its quantizers to the snapshot, the returned "
        "dictionary with the stored weights (sign*2^w, scale*w, bn_inv/fused_bias algebra, pooling factors), and, for "
        "data-independent scales, predictions before/after and idempotence of a second export. Non-trivial = distinct "
        "generated models (hashed spec+family).")
ANCHORS = [("qkeras/utils.py", 223, 413), ("qkeras/utils.py", 102, 219), ("qkeras/utils.py", 1357, 1532)]
ASSUMPTIONS = [
    "a quantizer's scale counts as data-dependent when its alpha is 'auto'/'auto_po2' without a frozen post_training_scale",
    "weights are paired with quantizers by the meaning of the tensor (gamma<->gamma_quantizer ...), not by list position",
    "BN fusing algebra is compared with rtol 1e-5 (float32 rsqrt)",
]
TIMEOUT = {"quick": 1500, "thorough": 6000}
FAMILIES = ["fixed", "po2", "auto_po2", "binary_const", "ternary_const", "auto_mixed", "frozen"]


def thresholds(tier):
  return {"models": 30, "layer_exports_checked": 90, "dict_entries_checked": 90, "prediction_invariance_checked": 12,
          "second_export_checked": 12, "bn_fusing_checked": 4, "distinct_nontrivial": 30}


def fam_quantizers(fam, rnd):
  if fam == "fixed":
    return (Qd("quantized_bits", bits=rnd.choice([3, 4, 6]), integer=rnd.choice([0, 1]), symmetric=1, alpha=1.0),
            Qd("quantized_bits", bits=6, integer=2, symmetric=1, alpha=1.0))
  if fam == "po2":
    if rnd.random() < 0.25:      # quadratic approximation: the stored exponents are even and may leave the declared range
      return (Qd("quantized_po2", bits=rnd.choice([4, 5]), quadratic_approximation=True),
              rnd.choice([Qd("quantized_po2", bits=4), Qd("quantized_bits", bits=6, integer=2, symmetric=1, alpha=1.0)]))
    return (Qd("quantized_po2", bits=rnd.choice([3, 4, 8]), max_value=rnd.choice([None, 2.0])),
            rnd.choice([Qd("quantized_po2", bits=4), Qd("quantized_relu_po2", bits=4), Qd("quantized_bits", bits=6, integer=2, symmetric=1, alpha=1.0)]))
  if fam in ("auto_po2", "frozen"):
    return (Qd("quantized_bits", bits=rnd.choice([3, 4, 6]), integer=rnd.choice([0, 1]), symmetric=1, alpha="auto_po2"),
            rnd.choice([Qd("quantized_bits", bits=6, integer=2, symmetric=1, alpha=1.0), Qd("quantized_po2", bits=4)])
            if fam == "auto_po2" else Qd("quantized_bits", bits=6, integer=2, symmetric=1, alpha=1.0))
  if fam == "binary_const":
    return (Qd("binary", alpha=rnd.choice([1.0, 0.5])), Qd("quantized_bits", bits=6, integer=2, symmetric=1, alpha=1.0))
  if fam == "ternary_const":
    return (Qd("ternary", alpha=rnd.choice([1.0, 0.5]), threshold=rnd.choice([None, 0.4])), Qd("quantized_bits", bits=6, integer=2, symmetric=1, alpha=1.0))
  return (rnd.choice([Qd("binary", alpha="auto"), Qd("ternary", alpha="auto_po2"), Qd("quantized_bits", bits=4, integer=0, symmetric=1, alpha="auto")]),
          Qd("quantized_bits", bits=6, integer=2, symmetric=1))


def export_model_spec(rnd, fam, focus=None):
  nm = gm._Names()
  layers = []

  def add(t, prefix, kw):
    layers.append({"t": t, "name": nm(prefix), "kw": kw, "in": [len(layers) - 1]})

  frozen = fam == "frozen"
  mode = rnd.choice(["img", "img", "vec", "seq"]) if not frozen else rnd.choice(["img", "vec"])
  shape = {"img": [6, 6, 2], "vec": [5], "seq": [4, 3]}[mode]
  rank = len(shape) + 1
  spatial = shape[0]
  if focus == "bn_fuse":
    mode, shape, rank, spatial = "img", [6, 6, 2], 4, 6
  for li in range(rnd.randint(2, 5)):
    wq, bq = fam_quantizers(fam, rnd)
    ub = bool(rnd.randint(0, 1))
    forced = focus == "bn_fuse" and li == 0
    if forced:
      # a fusable conv / depthwise with a bias whose hardware form differs from its value (power of two,
      # auto_po2) in front of a complete batch normalisation
      ub = True
      bq = rnd.choice([Qd("quantized_po2", bits=4), Qd("quantized_relu_po2", bits=4), Qd("quantized_po2", bits=5, max_value=2.0),
                       ] +      # (3-bit auto_po2 below: q(q(b)) != q(b), the fused bias must be built from q(b))
                      ([Qd("quantized_bits", bits=6, integer=2, symmetric=1, alpha="auto_po2"),
                        Qd("quantized_bits", bits=3, integer=0, symmetric=1, alpha="auto_po2"),
                        Qd("quantized_bits", bits=3, integer=1, symmetric=1, alpha="auto_po2"),
                        Qd("quantized_bits", bits=3, integer=0, symmetric=1, alpha="auto_po2")] if fam == "auto_po2" else []))
    bq = bq if ub else None
    act = rnd.choice([None, Qd("quantized_relu", bits=4, integer=1), Qd("quantized_bits", bits=6, integer=2, symmetric=1, alpha=1.0)])
    if rank == 4:
      ops = ["conv", "conv", "dw", "conv_bn", "dw_bn", "bn", "pool", "act", "flatten"]
      if not frozen:
        ops += ["fold", "dwfold", "sep", "gap"]
      t = rnd.choice(ops)
      if forced:
        t = rnd.choice(["conv_bn", "dw_bn"])
      if t in ("conv", "conv_bn"):
        add("QConv2D", "qconv", {"filters": rnd.randint(1, 3), "kernel_size": [rnd.randint(1, 2)] * 2, "padding": "same",
                                  "kernel_quantizer": wq, "bias_quantizer": bq, "use_bias": ub,
                                  "activation": None if t == "conv_bn" else act})
      if t in ("dw", "dw_bn"):
        add("QDepthwiseConv2D", "qdw", {"kernel_size": [rnd.randint(1, 2)] * 2, "padding": "same", "depthwise_quantizer": wq,
                                         "bias_quantizer": bq, "use_bias": ub, "activation": None if t == "dw_bn" else act})
      if t in ("conv_bn", "dw_bn", "bn"):
        kw = {"center": rnd.random() < 0.8, "scale": rnd.random() < 0.8}
        if forced:
          kw = rnd.choice([{"center": True, "scale": True}, {"center": True, "scale": True},
                           {"center": True, "scale": False}, {"center": False, "scale": True}])
        r = rnd.random()
        if r < 0.4:
          kw.update(gamma_quantizer=Qd("quantized_relu_po2", bits=6, max_value=4), beta_quantizer=Qd("quantized_po2", bits=5, max_value=4),
                    mean_quantizer=Qd("quantized_po2", bits=5, max_value=4),
                    variance_quantizer=Qd("quantized_relu_po2", bits=6, max_value=4, quadratic_approximation=True))
        elif r < 0.6:
          kw.update(gamma_quantizer=None, variance_quantizer=None, beta_quantizer=Qd("quantized_bits", bits=8, integer=3, symmetric=1, alpha=1.0),
                    mean_quantizer=Qd("quantized_bits", bits=8, integer=3, symmetric=1, alpha=1.0),
                    inverse_quantizer=Qd("quantized_bits", bits=8, integer=3, symmetric=1, alpha=1.0))
        add("QBatchNormalization", "qbn", kw)
      elif t == "sep":
        wq2, _ = fam_quantizers(fam, rnd)
        add("QSeparableConv2D", "qsep", {"filters": rnd.randint(1, 3), "kernel_size": [rnd.randint(1, 2)] * 2, "padding": "same",
                                          "depthwise_quantizer": wq, "pointwise_quantizer": wq2, "bias_quantizer": bq, "use_bias": ub})
      elif t in ("fold", "dwfold"):
        kw = {"kernel_size": [rnd.randint(1, 2)] * 2, "padding": "same", "bias_quantizer": bq, "use_bias": True,
              "folding_mode": rnd.choice(["ema_stats_folding", "batch_stats_folding"])}
        if t == "fold":
          kw.update(filters=rnd.randint(1, 3), kernel_quantizer=wq)
          add("QConv2DBatchnorm", "qfold", kw)
        else:
          kw.update(depthwise_quantizer=wq)
          add("QDepthwiseConv2DBatchnorm", "qdwfold", kw)
      elif t == "pool" and spatial >= 2:
        add("QAveragePooling2D", "qpool", {"pool_size": [2, 2], "average_quantizer": Qd("quantized_bits", bits=rnd.choice([4, 8]), integer=0, symmetric=1, alpha=1.0)})
        spatial //= 2
      elif t == "gap":
        add("QGlobalAveragePooling2D", "qgap", {"average_quantizer": Qd("quantized_bits", bits=8, integer=0, symmetric=1, alpha=1.0)})
        rank = 2
      elif t == "act":
        add("QActivation", "qact", {"activation": Qd("quantized_relu", bits=4, integer=1)})
      elif t == "flatten":
        add("Flatten", "flat", {})
        rank = 2
    elif rank == 3:
      t = rnd.choice(["conv1d", "rnn", "lstm", "gru", "flat"])
      wq2, _ = fam_quantizers(fam, rnd)
      if t == "conv1d":
        add("QConv1D", "qconv1d", {"filters": rnd.randint(1, 3), "kernel_size": rnd.randint(1, 2), "padding": "same",
                                    "kernel_quantizer": wq, "bias_quantizer": bq, "use_bias": ub, "activation": act})
      elif t in ("rnn", "lstm", "gru"):
        seq = bool(rnd.randint(0, 1))
        add({"rnn": "QSimpleRNN", "lstm": "QLSTM", "gru": "QGRU"}[t], "qrnn",
            {"units": rnd.randint(1, 3), "kernel_quantizer": wq, "recurrent_quantizer": wq2, "bias_quantizer": bq, "use_bias": ub,
             "state_quantizer": rnd.choice([None, Qd("quantized_bits", bits=6, integer=2, symmetric=1, alpha=1.0)]),
             "activation": Qd("quantized_tanh", bits=5), "return_sequences": seq})
        if not seq:
          rank = 2
      else:
        add("Flatten", "flat", {})
        rank = 2
    else:
      t = rnd.choice(["dense", "dense", "act", "bn"])
      if t == "dense":
        add("QDense", "qdense", {"units": rnd.randint(1, 4), "kernel_quantizer": wq, "bias_quantizer": bq, "use_bias": ub, "activation": act})
      elif t == "act":
        add("QActivation", "qact", {"activation": Qd("quantized_relu", bits=4, integer=1)})
      else:
        add("QBatchNormalization", "qbn", {"center": rnd.random() < 0.8, "scale": rnd.random() < 0.8})
  if not layers:
    add("QActivation", "qact", {"activation": Qd("quantized_relu", bits=4, integer=1)})
  layers[0]["in"] = [-1]
  return {"input": shape, "layers": layers}


def cases(tier, seed):
  n = 70 if tier == "quick" else 900
  out = []
  for i in range(n):
    rnd = random.Random(seed * 15485863 + i)
    fam = FAMILIES[i % len(FAMILIES)]
    out.append({"spec": export_model_spec(rnd, fam), "family": fam, "idx": i, "seed": seed})
  for j in range(18 if tier == "quick" else 150):
    rnd = random.Random(seed * 32452843 + j)
    fam = ["fixed", "po2", "auto_po2", "auto_po2"][j % 4]
    out.append({"spec": export_model_spec(rnd, fam, focus="bn_fuse"), "family": fam, "idx": n + j, "seed": seed})
  return out


def data_dependent(q):
  a = getattr(q, "alpha", None)
  if not isinstance(a, str):
    return False
  if getattr(q, "post_training_scale", None) is not None:
    return False
  return True


def named_weights(layer):
  """[(short variable name, value)] in get_weights() order."""
  return [(w.name.split("/")[-1].split(":")[0], np.asarray(w.numpy())) for w in layer.weights]


def pair_quantizers(layer):
  """[(quantizer or None, weight index)] by the meaning of the tensors."""
  cn = type(layer).__name__
  qs = list(layer.get_quantizers())
  names = [n for n, _ in named_weights(layer)]
  if cn == "QBatchNormalization":
    role = {"gamma": 0, "beta": 1, "moving_mean": 2, "moving_variance": 3}
    return [(qs[role[n]], i) for i, n in enumerate(names) if n in role]
  if cn in ("QSimpleRNN", "QLSTM", "QGRU"):
    qs = qs[:-1]
  return [(q, i) for i, q in enumerate(qs) if i < len(names)]


def run_case(case, ctx):
  import tensorflow as tf
  import tensorflow.keras.backend as K
  from qkeras import utils as qutils
  import contextlib
  import io
  tf.keras.backend.clear_session()
  K.set_learning_phase(0)
  spec, fam = case["spec"], case["family"]
  try:
    model = gm.build_q(spec)
  except Exception as e:  # pylint: disable=broad-except
    ctx.skip("model_not_buildable:%s" % type(e).__name__)
    ctx.observe("unbuildable_model", {"layers": [l["t"] for l in spec["layers"]], "err": repr(e)[:300]})
    return
  rng = np.random.default_rng(case["seed"] * 977 + case["idx"])
  ws = []
  for w in model.get_weights():
    if w.dtype.kind != "f":
      ws.append(w)
      continue
    v = rng.normal(0, 0.6, size=w.shape)
    if v.size > 2:
      v.flat[0] = 0.0                    # an exact zero
      v.flat[1] = 0.1875                 # a rounding breakpoint of the coarse formats
    ws.append(v.astype(w.dtype))
  model.set_weights(ws)
  for l in model.layers:
    for holder in (l, getattr(l, "batchnorm", None)):
      v = getattr(holder, "moving_variance", None) if holder is not None else None
      if v is not None:
        v.assign(np.abs(v.numpy()) + 0.05)
  x = rng.normal(0, 1.0, size=(3,) + tuple(spec["input"])).astype(np.float32)
  base = {"family": fam}
  if fam == "frozen":
    # freeze with the library's utility; the frozen clone is the model under test
    ok, res = ctx.call(dict(base, op="freeze"), lambda: _quiet(lambda: qutils.clone_model_and_freeze_auto_po2_scale(orig_model=model)))
    if not ok:
      return
    model = res[0]
  ctx.count("models")
  ctx.nontrivial(json.dumps(spec, sort_keys=True), fam)
  y0 = np.asarray(model(x, training=False))
  snap0 = {l.name: named_weights(l) for l in model.layers}
  all_q = [q for l in model.layers if hasattr(l, "get_quantizers") for q in l.get_quantizers() if q is not None]
  independent = not any(data_dependent(q) for q in all_q)
  # a QBatchNormalization without gamma or beta is exported with mis-paired quantizers (finding F-C14-1);
  # its consequences (changed predictions, non-idempotent second export) carry this flag
  incomplete_bn = any(type(l).__name__ == "QBatchNormalization" and len(l.weights) != 4 and
                      any(q is not None for q in l.get_quantizers()) for l in model.layers)
  base = dict(base, incomplete_bn=incomplete_bn)
  ok, d1 = ctx.call(dict(base, op="export1"), lambda: _quiet(lambda: qutils.model_save_quantized_weights(model)))
  if not ok:
    return
  snap1 = {l.name: named_weights(l) for l in model.layers}
  check_export(ctx, model, snap0, snap1, d1, base)
  if independent:
    y1 = np.asarray(model(x, training=False))
    ctx.count("prediction_invariance_checked")
    if not np.array_equal(y0, y1, equal_nan=True):
      d = float(np.nanmax(np.abs(y0.astype(np.float64) - y1)))
      ctx.violation(dict(base, kind="export_changed_predictions"), "max |diff| = %g with data-independent scales" % d,
                    {"layers": [l["t"] for l in spec["layers"]]})
    ok, d2 = ctx.call(dict(base, op="export2"), lambda: _quiet(lambda: qutils.model_save_quantized_weights(model)))
    if ok:
      ctx.count("second_export_checked")
      snap2 = {l.name: named_weights(l) for l in model.layers}
      for name in snap1:
        for (n1, a), (n2, b) in zip(snap1[name], snap2[name]):
          if not np.array_equal(a, b, equal_nan=True):
            ctx.violation(dict(base, kind="second_export_changed_weights", layer=type(model.get_layer(name)).__name__),
                          "%s/%s changed on the second export" % (name, n1), None)
      if not _dict_equal(d1, d2):
        ctx.violation(dict(base, kind="second_export_returned_different_dictionary"), "dictionaries differ", None)
  else:
    ctx.count("data_dependent_models")
  ctx.sample({"family": fam, "layers": [l["t"] for l in spec["layers"]], "independent_scales": independent,
              "dict_keys": {k: sorted(v.keys()) for k, v in d1.items()}})


def _quiet(fn):
  import contextlib
  import io
  with contextlib.redirect_stdout(io.StringIO()):
    return fn()


def _dict_equal(a, b):
  if type(a) is not type(b):
    return False
  if isinstance(a, dict):
    return a.keys() == b.keys() and all(_dict_equal(a[k], b[k]) for k in a)
  if isinstance(a, (list, tuple)):
    return len(a) == len(b) and all(_dict_equal(x, y) for x, y in zip(a, b))
  try:
    return bool(np.array_equal(np.asarray(a), np.asarray(b), equal_nan=True))
  except Exception:  # pylint: disable=broad-except
    return a == b


def check_export(ctx, model, snap0, snap1, d, base):
  import tensorflow as tf
  import tensorflow.keras.backend as K
  for layer in model.layers:
    if not hasattr(layer, "get_quantizers"):
      continue
    cn = type(layer).__name__
    sig = dict(base, layer=cn)
    old = snap0[layer.name]
    new = snap1[layer.name]
    folded = cn in ("QConv2DBatchnorm", "QDepthwiseConv2DBatchnorm")
    ctx.count("layer_exports_checked")
    if folded:
      for (n, a), (_, b) in zip(old, new):
        if not np.array_equal(a, b):
          ctx.violation(dict(sig, kind="folded_layer_weights_changed"), "%s/%s" % (layer.name, n), None)
    else:
      pairs = pair_quantizers(layer)
      done = set()
      for q, i in pairs:
        done.add(i)
        want = old[i][1] if q is None else np.asarray(K.eval(q(tf.constant(old[i][1]))))
        ctx.evals(int(want.size))
        if not np.array_equal(new[i][1], want, equal_nan=True):
          once = q is not None and np.array_equal(new[i][1], old[i][1])
          ctx.violation(dict(sig, kind="stored_weight_is_not_its_quantizer_applied_once", tensor=old[i][0] if cn != "QBatchNormalization" else "bn_tensor"),
                        "%s/%s: stored != %s(previous)%s" % (layer.name, old[i][0], type(q).__name__, " (left unquantized)" if once else ""),
                        {"stored": new[i][1].ravel()[:4].tolist(), "expected": want.ravel()[:4].tolist()})
      for i, (n, a) in enumerate(old):
        if i not in done and not np.array_equal(a, new[i][1]):
          ctx.violation(dict(sig, kind="unquantized_tensor_changed", tensor=n), "%s/%s" % (layer.name, n), None)
    # ------------------------------------------------ dictionary relations
    entry = d.get(layer.name)
    if entry is None:
      ctx.violation(dict(sig, kind="layer_missing_from_dictionary"), layer.name, None)
      continue
    ctx.count("dict_entries_checked")
    qs = list(layer.get_quantizers())
    if cn in ("QSimpleRNN", "QLSTM", "QGRU"):
      qs = qs[:-1]
    if folded:
      stored = [np.asarray(K.eval(q(tf.constant(w)))) if q is not None else np.asarray(w)
                for q, w in zip(qs, [np.asarray(t) for t in layer.get_folded_weights()])]
    else:
      stored = [new[i][1] for i in range(min(len(qs), len(new)))]
    hw = entry.get("weights", [])
    for i, (q, s) in enumerate(zip(qs, stored)):
      if i >= len(hw):
        ctx.violation(dict(sig, kind="dictionary_weights_shorter_than_quantizers"), layer.name, None)
        break
      qn = type(q).__name__ if q is not None else None
      if cn == "QBatchNormalization" and len(layer.weights) != 4:
        continue     # pairing by position is itself what F-C14-1 is about; relations are checked for complete BN only
      if q is not None and "_po2" in qn:
        signs = entry.get("signs")
        sgn = None
        if qn == "quantized_po2":
          if signs is None or i >= len(signs) or np.size(signs[i]) == 0:
            ctx.violation(dict(sig, kind="po2_sign_not_aligned_with_weight_index"),
                          "%s: no sign entry at weight index %d (signs has %d entries)" % (layer.name, i, 0 if signs is None else len(signs)), None)
            continue
          sgn = np.asarray(signs[i], dtype=np.float64)
          if not np.all(np.isin(sgn, (-1.0, 1.0))):
            ctx.violation(dict(sig, kind="po2_sign_not_plus_minus_one"), layer.name, None)
        rebuilt = (sgn if sgn is not None else 1.0) * 2.0 ** np.asarray(hw[i], dtype=np.float64)
        if not np.array_equal(rebuilt, s.astype(np.float64)):
          ctx.violation(dict(sig, kind="po2_sign_times_2^exponent_differs_from_stored_weight", quantizer=qn),
                        "%s weight %d" % (layer.name, i), {"stored": s.ravel()[:4].tolist(), "rebuilt": rebuilt.ravel()[:4].tolist()})
      elif qn == "quantized_bits" and q.alpha == "auto_po2":
        scales = entry.get("scales")
        if scales is None or i >= len(scales) or np.size(scales[i]) == 0:
          ctx.violation(dict(sig, kind="auto_po2_scale_not_aligned_with_weight_index"), "%s weight %d" % (layer.name, i), None)
          continue
        sc = np.asarray(scales[i], dtype=np.float64)
        w_int = np.asarray(hw[i], dtype=np.float64)
        m, e = np.frexp(sc[sc > 0])
        if (m != 0.5).any():
          ctx.violation(dict(sig, kind="auto_po2_scale_not_power_of_two"), layer.name, None)
        if not np.allclose(sc * w_int, s.astype(np.float64), rtol=1e-6, atol=0):
          ctx.violation(dict(sig, kind="auto_po2_scale_times_integer_differs_from_stored_weight"),
                        "%s weight %d: scale*integer = %r, stored %r" % (layer.name, i, (sc * w_int).ravel()[:3].tolist(), s.ravel()[:3].tolist()), None)
        top = 2 ** (q.bits - 1) - 1
        if np.abs(w_int - np.round(w_int)).max() > 1e-6 or np.abs(w_int).max() > top:
          ctx.violation(dict(sig, kind="auto_po2_integer_weight_outside_declared_range"),
                        "%s weight %d: integers reach %g, %d-bit range is +-%d" % (layer.name, i, np.abs(w_int).max(), q.bits, top), None)
      else:
        if not np.array_equal(np.asarray(hw[i]), s, equal_nan=True):
          ctx.violation(dict(sig, kind="dictionary_weight_differs_from_stored_weight"), "%s weight %d" % (layer.name, i), None)
    # pooling entries
    if cn in ("QAveragePooling2D", "QGlobalAveragePooling2D"):
      if cn == "QAveragePooling2D":
        area = float(np.prod(layer.pool_size))
      else:
        area = float(layer.input_shape[1] * layer.input_shape[2])
      want = float(np.asarray(layer.average_quantizer_internal(1.0 / area)))
      if abs(float(np.asarray(entry.get("q_mult_factor", np.nan))) - want) > 0 or abs(entry.get("mult_factor", np.nan) - 1.0 / area) > 1e-12:
        ctx.violation(dict(sig, kind="pooling_factor_entry_wrong"), "%s: %r / %r" % (layer.name, entry.get("q_mult_factor"), entry.get("mult_factor")), None)
  # ------------------------------------------------ BN fusing algebra
  layers = model.layers
  succ = {}
  for l in layers:
    for node in l._inbound_nodes:
      ins = node.inbound_layers if isinstance(node.inbound_layers, list) else [node.inbound_layers]
      for p in ins:
        succ.setdefault(p.name, []).append(l)
  for l in layers:
    cn = type(l).__name__
    nxt = succ.get(l.name, [])
    fusable = cn in ("QConv2D", "QDepthwiseConv2D") and len(nxt) == 1 and type(nxt[0]).__name__ == "QBatchNormalization"
    entry = d.get(l.name, {})
    if fusable != bool(entry.get("enable_bn_fusing", False)) and cn in ("QConv2D", "QDepthwiseConv2D"):
      ctx.violation(dict(base, kind="bn_fusing_flag_wrong", layer=cn), "%s: fusable=%s flag=%s" % (l.name, fusable, entry.get("enable_bn_fusing")), None)
    if not fusable or "bn_inv" not in entry:
      continue
    bn = nxt[0]
    ctx.count("bn_fusing_checked")
    stored = dict(snap1[bn.name])

    def qv(q, name, default):
      if name not in stored:
        return default
      v = stored[name]      # already quantized by the export itself; quantizing again is the export's documented algebra
      return np.asarray(K.eval(q(tf.constant(v)))) if q is not None else v
    g = qv(bn.gamma_quantizer_internal, "gamma", 1.0)
    b = qv(bn.beta_quantizer_internal, "beta", 0.0)
    mu = qv(bn.mean_quantizer_internal, "moving_mean", 0.0)
    var = qv(bn.variance_quantizer_internal, "moving_variance", 1.0)
    inv = np.asarray(g, dtype=np.float64) / np.sqrt(np.asarray(var, dtype=np.float64) + bn.epsilon)
    if bn.inverse_quantizer_internal is not None:
      inv = np.asarray(K.eval(bn.inverse_quantizer_internal(tf.constant(inv.astype(np.float32)))), dtype=np.float64)
    pb = dict(snap1[l.name]).get("bias", 0.0) if l.use_bias else 0.0
    fb = inv * np.asarray(pb, dtype=np.float64) + np.asarray(b, dtype=np.float64) - inv * np.asarray(mu, dtype=np.float64)
    if len(bn.weights) != 4:
      ctx.count("bn_fusing_checked_incomplete_bn")      # center=False and / or scale=False: gamma = 1 / beta = 0
    if not np.allclose(np.asarray(entry["bn_inv"], dtype=np.float64), inv, rtol=2e-5, atol=1e-7):
      ctx.violation(dict(base, kind="bn_inv_differs_from_batchnorm_algebra", layer=cn),
                    "%s: %r vs %r" % (l.name, np.asarray(entry["bn_inv"]).ravel()[:3].tolist(), inv.ravel()[:3].tolist()), None)
    if not np.allclose(np.asarray(entry["fused_bias"], dtype=np.float64), fb, rtol=5e-5, atol=1e-6):
      ctx.violation(dict(base, kind="fused_bias_differs_from_batchnorm_algebra", layer=cn),
                    "%s: %r vs %r" % (l.name, np.asarray(entry["fused_bias"]).ravel()[:3].tolist(), fb.ravel()[:3].tolist()), None)
