"""C11 - quantized layers equal the stock Keras layer run on pre-quantized weights."""
import random

import numpy as np

PID = "C11"
RULE = ("one case = one generated layer instance: type in {dense, conv1d, conv2d (groups), depthwise, "
        "separable 1d/2d, simple RNN, LSTM, GRU, average / global average pooling, scale-shift} x "
        "geometry (units/filters, kernel, strides, padding incl. causal, dilation, depth multiplier, "
        "use_bias, return_sequences, reset_after, implementation) x quantizer choices for every tensor "
        "role x random weights and dyadic inputs; the layer output is compared with the stock tf_keras "
        "layer whose weights are get_quantizers()[i](weights[i]) followed by the layer's activation; the "
        "quantizer-call monitor checks which quantizer object touched which weight tensor. Non-trivial = "
        "distinct generated layer configurations (hashed).")
ANCHORS = [("qkeras/qlayers.py", 647, 662), ("qkeras/qconvolutional.py", 193, 218),
           ("qkeras/qconvolutional.py", 380, 417), ("qkeras/qconvolutional.py", 734, 787),
           ("qkeras/qconvolutional.py", 913, 949), ("qkeras/qconvolutional.py", 1105, 1130),
           ("qkeras/qrecurrent.py", 142, 184), ("qkeras/qrecurrent.py", 600, 678),
           ("qkeras/qrecurrent.py", 1100, 1219), ("qkeras/qpooling.py", 56, 106),
           ("qkeras/qpooling.py", 159, 203), ("qkeras/qmac.py", 108, 123), ("qkeras/qlayers.py", 722, 723)]
ASSUMPTIONS = [
    "inputs and weights are dyadic (multiples of 2^-4 .. 2^-6) so exact equality is legitimate; otherwise <= 32 ulp of the largest magnitude",
    "QConv2DTranspose-family layers cannot be called under TF 2.21 (array_ops.stack removed): not part of this check's workload",
    "channels_last only (tf_keras' CPU kernels)",
]
TIMEOUT = {"quick": 900, "thorough": 3600}
KINDS = ["dense", "conv1d", "conv2d", "dw", "sep1d", "sep2d", "rnn", "lstm", "gru", "avgpool", "gavgpool", "scaleshift"]
WQ = [None, "quantized_bits(4,0,1,alpha=1.0)", "quantized_bits(3,1,0,alpha=1.0)", "quantized_bits(4,0,1)",
      "quantized_po2(4)", "ternary(alpha=1.0)", "binary(alpha=1.0)", "ternary", "binary",
      "quantized_bits(5,2,1,alpha='auto')", "quantized_linear(4,0)"]
BQ = [None, "quantized_bits(4,0,1)", "quantized_bits(6,2,1)", "quantized_po2(4)", "quantized_bits(5,1,1,alpha='auto')"]
AQ = [None, "quantized_relu(4,1)", "quantized_bits(6,2,1)", "quantized_tanh(4)", "relu", "tanh"]


def thresholds(tier):
  t = {"layers_compared": 200, "exact_matches": 150, "accounting_checked": 120, "distinct_nontrivial": 200}
  for k in KINDS:
    t["kind." + k] = 5
  return t


def cases(tier, seed):
  rnd = random.Random(seed * 13 + 5)
  n = 640 if tier == "quick" else 8000
  out = []
  pick = rnd.choice
  ri = rnd.randint
  for i in range(n):
    kind = KINDS[i % len(KINDS)]
    use_bias = bool(ri(0, 1))
    c = dict(kind=kind, use_bias=use_bias, wq=pick(WQ), bq=pick(BQ) if use_bias else None, aq=pick(AQ))
    if kind == "dense":
      c.update(units=ri(1, 5), xin=(ri(1, 3), ri(1, 7)))
    elif kind == "conv1d":
      c.update(filters=ri(1, 4), k=ri(1, 3), s=ri(1, 2), pad=pick(["valid", "same", "causal"]), d=1,
               xin=(ri(1, 2), ri(6, 10), ri(1, 3)))
    elif kind == "conv2d":
      c.update(filters=pick([1, 2, 4]), k=(ri(1, 3), ri(1, 3)), s=(ri(1, 2), ri(1, 2)), pad=pick(["valid", "same"]),
               d=1, groups=1, xin=(ri(1, 2), ri(5, 8), ri(5, 8), pick([1, 2, 4])))
    elif kind == "dw":
      c.update(k=(ri(1, 3), ri(1, 3)), s=pick([(1, 1), (2, 2)]), pad=pick(["valid", "same"]), dm=ri(1, 2), d=1,
               xin=(ri(1, 2), ri(5, 8), ri(5, 8), ri(1, 3)))
    elif kind == "sep1d":
      c.update(filters=ri(1, 4), k=ri(1, 3), s=ri(1, 2), pad=pick(["valid", "same", "causal"]), dm=ri(1, 2),
               wq2=pick(WQ), xin=(ri(1, 2), ri(6, 10), ri(1, 3)))
    elif kind == "sep2d":
      c.update(filters=ri(1, 4), k=(ri(1, 3), ri(1, 3)), s=pick([(1, 1), (2, 2)]), pad=pick(["valid", "same"]),
               dm=ri(1, 2), wq2=pick(WQ), xin=(ri(1, 2), ri(5, 8), ri(5, 8), ri(1, 3)))
    elif kind in ("rnn", "lstm", "gru"):
      c.update(units=ri(1, 4), rq=pick(WQ), sq=pick([None, "quantized_bits(6,2,1)"]), seq=bool(ri(0, 1)),
               xin=(ri(1, 2), ri(2, 5), ri(1, 3)), aq=pick(["quantized_tanh(4)", "tanh", "quantized_bits(6,2,1)"]),
               impl=ri(1, 2), reset_after=bool(ri(0, 1)))
      if kind == "gru" and rnd.random() < 0.3:
        # the stored GRU bias has rank 2 with reset_after: a data-dependent bias quantizer sees the whole weight
        c.update(bq="quantized_bits(5,1,1,alpha='auto')", use_bias=True, reset_after=True)
    elif kind == "avgpool":
      c.update(pool=(ri(1, 3), ri(1, 3)), s=pick([None, (1, 1), (2, 2)]), pad=pick(["valid", "same"]),
               avq=pick([None, "quantized_bits(8,0,1)", "quantized_bits(4,0,1)", "quantized_po2(4)"]),
               xin=(ri(1, 2), ri(4, 8), ri(4, 8), ri(1, 3)))
    elif kind == "gavgpool":
      c.update(avq=pick([None, "quantized_bits(8,0,1)", "quantized_po2(4)"]), xin=(ri(1, 2), ri(1, 6), ri(1, 6), ri(1, 3)),      # incl. 1 x 1 feature maps
               df=pick(["channels_last", "channels_last", "channels_first", None]))      # set on the layer, global default untouched
    elif kind == "scaleshift":
      c.update(xin=(ri(1, 2), ri(2, 6), ri(1, 3)))
    if kind in ("conv2d", "dw", "sep2d", "avgpool"):
      # how sizes are spelled for the quantized layer: tuple, bare int (square geometry) or list
      c["spell"] = pick(["tuple", "tuple", "int", "int", "list"])
      if c["spell"] == "int":
        for key in ("k", "pool"):
          if key in c:
            c[key] = (c[key][0], c[key][0])
    if kind in ("sep1d", "sep2d"):
      c["d"] = 1
    if kind in ("conv1d", "conv2d", "dw", "sep1d", "sep2d") and rnd.random() < 0.3 and c["s"] in (1, (1, 1)):
      c["d"] = 2
    if kind == "sep1d" and rnd.random() < 0.3:
      c["df"] = "channels_first"                      # (batch, channels, steps)
      c["xin"] = (c["xin"][0], c["xin"][2], c["xin"][1])
    if kind in ("conv1d", "sep1d") and c["pad"] == "causal" and rnd.random() < 0.6:
      c["s"], c["d"] = 1, pick([2, 2, 3])        # causal padding depends on the dilation: (k-1)*d leading steps
      c["k"] = max(c["k"], 2)
    if kind == "conv2d" and rnd.random() < 0.25 and c["xin"][-1] in (2, 4) and c["filters"] in (2, 4):
      c["groups"] = 2
    if kind in ("avgpool", "gavgpool", "scaleshift") and c["aq"] in ("relu", "tanh"):
      c["aq"] = None
    c["idx"], c["seed"] = i, seed
    out.append(c)
  return out


def setup(ctx):
  from vf.monitors import qcall
  qcall.install()


def finalize(ctx):
  from vf.monitors import qcall
  qcall.flush_counts(ctx)


def build(c, rs):
  import tensorflow as tf
  import qkeras as qk
  L = tf.keras.layers
  kind = c["kind"]

  def wi():
    # default initializer: the weights are overwritten with dyadic values after build
    # (a custom bias initializer + bias quantizer makes QLSTM unbuildable: QInitializer returns a
    # numpy array that Keras' unit_forget_bias concatenation rejects -- outside C11, observed in DESIGN)
    return "glorot_uniform"
  kw = dict(use_bias=c["use_bias"])
  kl = None

  def sp(v):
    """Argument spelling for the quantized layer only: Keras accepts an int, a tuple or a list for sizes;
    the stock reference layer always gets the tuple."""
    if v is None:
      return None
    v = tuple(v)
    how = c.get("spell", "tuple")
    if how == "int" and len(set(v)) == 1:
      return v[0]
    if how == "list":
      return list(v)
    return v
  if kind == "dense":
    ql = qk.QDense(c["units"], kernel_quantizer=c["wq"], bias_quantizer=c["bq"], activation=c["aq"],
                   kernel_initializer=wi(), bias_initializer="zeros", **kw)
    kl = L.Dense(c["units"], **kw)
  elif kind == "conv1d":
    ql = qk.QConv1D(c["filters"], c["k"], strides=c["s"], padding=c["pad"], dilation_rate=c["d"], kernel_quantizer=c["wq"],
                    bias_quantizer=c["bq"], activation=c["aq"], kernel_initializer=wi(), bias_initializer="zeros", **kw)
    kl = L.Conv1D(c["filters"], c["k"], strides=c["s"], padding=c["pad"], dilation_rate=c["d"], **kw)
  elif kind == "conv2d":
    ql = qk.QConv2D(c["filters"], sp(c["k"]), strides=sp(c["s"]), padding=c["pad"], dilation_rate=c["d"], groups=c["groups"],
                    kernel_quantizer=c["wq"], bias_quantizer=c["bq"], activation=c["aq"], kernel_initializer=wi(),
                    bias_initializer="zeros", **kw)
    kl = L.Conv2D(c["filters"], tuple(c["k"]), strides=tuple(c["s"]), padding=c["pad"], dilation_rate=c["d"], groups=c["groups"], **kw)
  elif kind == "dw":
    ql = qk.QDepthwiseConv2D(sp(c["k"]), strides=sp(c["s"]), padding=c["pad"], depth_multiplier=c["dm"], dilation_rate=c["d"],
                             depthwise_quantizer=c["wq"], bias_quantizer=c["bq"], activation=c["aq"],
                             depthwise_initializer=wi(), bias_initializer="zeros", **kw)
    kl = L.DepthwiseConv2D(tuple(c["k"]), strides=tuple(c["s"]), padding=c["pad"], depth_multiplier=c["dm"], dilation_rate=c["d"], **kw)
  elif kind == "sep1d":
    if c.get("df"):
      kw = dict(kw, data_format=c["df"])
    ql = qk.QSeparableConv1D(c["filters"], c["k"], strides=c["s"], padding=c["pad"], depth_multiplier=c["dm"], dilation_rate=c["d"],
                             depthwise_quantizer=c["wq"], pointwise_quantizer=c["wq2"], bias_quantizer=c["bq"],
                             activation=c["aq"], depthwise_initializer=wi(), pointwise_initializer=wi(), bias_initializer="zeros", **kw)
    kl = L.SeparableConv1D(c["filters"], c["k"], strides=c["s"], padding=c["pad"], depth_multiplier=c["dm"], dilation_rate=c["d"], **kw)
  elif kind == "sep2d":
    ql = qk.QSeparableConv2D(c["filters"], sp(c["k"]), strides=sp(c["s"]), padding=c["pad"], depth_multiplier=c["dm"], dilation_rate=c["d"],
                             depthwise_quantizer=c["wq"], pointwise_quantizer=c["wq2"], bias_quantizer=c["bq"],
                             activation=c["aq"], depthwise_initializer=wi(), pointwise_initializer=wi(), bias_initializer="zeros", **kw)
    kl = L.SeparableConv2D(c["filters"], tuple(c["k"]), strides=tuple(c["s"]), padding=c["pad"], depth_multiplier=c["dm"], dilation_rate=c["d"], **kw)
  elif kind in ("rnn", "lstm", "gru"):
    Qc = {"rnn": qk.QSimpleRNN, "lstm": qk.QLSTM, "gru": qk.QGRU}[kind]
    ex = {} if kind == "rnn" else {"implementation": c["impl"]}
    if kind == "gru":
      ex["reset_after"] = c["reset_after"]
    ql = Qc(c["units"], kernel_quantizer=c["wq"], recurrent_quantizer=c["rq"], bias_quantizer=c["bq"],
            state_quantizer=c["sq"], activation=c["aq"], return_sequences=c["seq"], kernel_initializer=wi(),
            recurrent_initializer=wi(), bias_initializer="zeros", **ex, **kw)
  elif kind == "avgpool":
    ql = qk.QAveragePooling2D(sp(c["pool"]), strides=sp(c["s"]), padding=c["pad"],
                              average_quantizer=c["avq"], activation=c["aq"])
  elif kind == "gavgpool":
    ql = qk.QGlobalAveragePooling2D(average_quantizer=c["avq"], activation=c["aq"],
                                    **({"data_format": c["df"]} if c.get("df") else {}))
  elif kind == "scaleshift":
    ql = qk.QScaleShift(weight_quantizer=c["wq"], bias_quantizer=c["bq"], use_bias=c["use_bias"], activation=c["aq"],
                        weight_initializer=wi(), bias_initializer="zeros")
  return ql, kl


def dyadic_weights(layer, rs):
  """Replaces the layer's weights by dyadic values (multiples of 2^-5 in [-1.5, 1.5])."""
  ws = layer.get_weights()
  new = [(rs.integers(-48, 49, size=w.shape) / 32.0).astype(np.float32) for w in ws]
  layer.set_weights(new)
  return new


def check_wrapper(c, ctx, xt):
  """QBidirectional around the recurrent layer of the case: the quantizers the wrapper reports have to be the
  objects its forward / backward layers apply (identity), forward half first, in weight order."""
  import qkeras as qk
  from qkeras.qrecurrent import QBidirectional
  from vf.monitors import qcall
  base = {"layer": "bidirectional", "inner": c["kind"]}
  cls = {"rnn": qk.QSimpleRNN, "lstm": qk.QLSTM, "gru": qk.QGRU}[c["kind"]]
  kw = dict(kernel_quantizer=c["wq"], recurrent_quantizer=c["rq"], bias_quantizer=c["bq"], state_quantizer=c["sq"],
            use_bias=c["use_bias"])
  ok, ql = ctx.call(dict(base, op="construct"), lambda: QBidirectional(cls(c["units"], **kw)))
  if not ok:
    return
  ok, _ = ctx.call(dict(base, op="first_call"), lambda: ql(xt))
  if not ok:
    return
  with qcall.recording() as events:
    ok, _ = ctx.call(dict(base, op="call"), lambda: np.asarray(ql(xt)))
  if not ok:
    return
  ok, qs = ctx.call(dict(base, op="get_quantizers"), ql.get_quantizers)
  if not ok:
    return
  qs = list(qs)
  ctx.count("wrapper_layers_checked")
  called = {e["qid"] for e in events}
  if not called:
    ctx.skip("wrapper_call_not_eager")
    return
  not_applied = [i for i, q in enumerate(qs) if q is not None and id(q) not in called]
  ctx.evals(len(qs))
  if not_applied:
    ctx.violation(dict(base, kind="reported_quantizer_is_not_the_applied_object"),
                  "get_quantizers()[%s] of the wrapper were never called while the layer ran (%d reported, %d distinct "
                  "quantizer objects called)" % (not_applied, len(qs), len(called)), {"case": {k: str(v) for k, v in c.items()}})
  halves = []
  for part in (ql.forward_layer, ql.backward_layer):
    cell = part.cell
    halves += [getattr(cell, n + "_internal", None) for n in ("kernel_quantizer", "recurrent_quantizer", "bias_quantizer", "state_quantizer")]
  if len(halves) == len(qs) and any(a is not b for a, b in zip(qs, halves)):
    ctx.violation(dict(base, kind="reported_quantizers_not_in_weight_order_of_the_applied_ones"),
                  "positions %r differ from forward + backward (kernel, recurrent, bias, state)" % [i for i, (a, b) in enumerate(zip(qs, halves)) if a is not b], None)


def run_case(c, ctx):
  import tensorflow as tf
  import tensorflow.keras.backend as K
  from vf.monitors import qcall
  L = tf.keras.layers
  K.set_learning_phase(0)
  kind = c["kind"]
  rs = np.random.default_rng(c["seed"] * 7001 + c["idx"])
  x = (rs.integers(-32, 33, size=tuple(c["xin"])) / 16.0).astype(np.float32)
  xt = tf.constant(x)
  if kind in ("rnn", "lstm", "gru") and c["idx"] % 2 == 0:
    check_wrapper(c, ctx, xt)
  base = {"layer": kind}
  if kind in ("rnn", "lstm", "gru"):
    base["recurrent_quantizer"] = "none" if c["rq"] is None else "set"
  if kind in ("conv1d", "sep1d"):
    base["padding"] = c["pad"]
  ok, built = ctx.call(dict(base, op="construct"), build, c, rs)
  if not ok:
    return
  ql, kl = built
  ok, _ = ctx.call(dict(base, op="first_call"), lambda: ql(xt))
  if not ok:
    return
  ws = dyadic_weights(ql, rs)
  with qcall.recording() as events:
    ok, y = ctx.call(dict(base, op="call"), lambda: np.asarray(ql(xt)))
  if not ok:
    return
  ctx.count("kind." + kind)
  ctx.count("layers_compared")
  ctx.nontrivial(*sorted((k, str(v)) for k, v in c.items() if k not in ("idx", "seed")))
  ok, qs = ctx.call(dict(base, op="get_quantizers"), ql.get_quantizers)
  if not ok:
    return
  qs = list(qs)

  def qw(qlist, wlist):
    out = []
    for q, w in zip(qlist, wlist):
      out.append(np.asarray(q(tf.constant(w))) if q is not None else w)
    return out + list(wlist[len(qlist):])

  # ------------------------------------------------------------ reference
  try:
    if kind in ("dense", "conv1d", "conv2d", "dw", "sep1d", "sep2d"):
      kl(xt)
      kl.set_weights(qw(qs, ws))
      r = kl(xt)
      a = ql.activation
      r = a(r) if a is not None else r
    elif kind in ("rnn", "lstm", "gru"):
      cell = ql.cell
      sq = cell.state_quantizer_internal
      Wq = qw(qs[:3], ws)
      KC = {"rnn": L.SimpleRNNCell, "lstm": L.LSTMCell, "gru": L.GRUCell}[kind]
      ex = {} if kind == "rnn" else {"implementation": c["impl"], "recurrent_activation": cell.recurrent_activation}
      if kind == "gru":
        ex["reset_after"] = c["reset_after"]
      kc = KC(c["units"], activation=cell.activation, use_bias=c["use_bias"], **ex)

      class W(L.Layer):
        def __init__(s):
          super().__init__()
          s.c = kc
          s.state_size = kc.state_size
          s.output_size = kc.output_size

        def call(s, inputs, states):
          st = [sq(t) for t in states] if sq is not None else list(states)
          return s.c(inputs, st)
      rl = L.RNN(W(), return_sequences=c["seq"])
      rl(xt)
      kc.set_weights(Wq)
      r = rl(xt)
    elif kind == "avgpool":
      pl = L.AveragePooling2D(tuple(c["pool"]), strides=None if c["s"] is None else tuple(c["s"]), padding=c["pad"])
      if qs[0] is None:
        r = pl(xt)
      else:
        area = float(np.prod(c["pool"]))
        r = pl(xt * area) * K.cast_to_floatx(qs[0](1.0 / area))
      r = ql.activation(r) if ql.activation is not None else r
    elif kind == "gavgpool":
      axes = [2, 3] if c.get("df") == "channels_first" else [1, 2]      # the layer's own data_format
      if qs[0] is None:
        r = tf.reduce_mean(xt, axis=axes)
      else:
        r = tf.reduce_sum(xt, axis=axes) * qs[0](1.0 / (x.shape[axes[0]] * x.shape[axes[1]]))
      r = ql.activation(r) if ql.activation is not None else r
    elif kind == "scaleshift":
      Wl = qw(qs, ws)
      r = xt * Wl[0]
      if c["use_bias"]:
        r = Wl[1] + r
      r = ql.activation(r) if ql.activation is not None else r
    r = np.asarray(r)
  except Exception as e:  # pylint: disable=broad-except
    ctx.skip("reference_could_not_be_built:%s" % type(e).__name__)
    ctx.observe("reference_failure", {"case": {k: str(v) for k, v in c.items()}, "err": repr(e)[:200]})
    return
  ctx.evals(int(y.size))
  if y.shape != r.shape:
    ctx.violation(dict(base, kind="output_shape_differs"), "%s vs reference %s" % (y.shape, r.shape), None)
    return
  d = float(np.abs(y.astype(np.float64) - r.astype(np.float64)).max()) if y.size else 0.0
  scale = max(1.0, float(np.abs(r).max()) if r.size else 1.0)
  # the "same" padded average pooling sums differ in association from tf's pooling kernel
  if d == 0:
    ctx.count("exact_matches")
  elif d <= 32 * 2.0 ** -23 * scale:
    ctx.count("ulp_level_matches")
  else:
    i = int(np.argmax(np.abs(y - r)))
    ctx.violation(dict(base, kind="output_differs_from_keras_layer_on_quantized_weights"),
                  "max |diff| = %g (layer %r, reference %r)" % (d, float(y.flat[i]), float(r.flat[i])),
                  {"config": {k: str(v) for k, v in c.items()}})
  # ------------------------------------------------------------ accounting
  wdig = {}
  for i, w in enumerate(ws):
    wdig.setdefault(qcall.digest(w), []).append(i)
  ids = {id(q): i for i, q in enumerate(qs) if q is not None}
  if ids and len(set(qcall.digest(w) for w in ws)) == len(ws):
    ctx.count("accounting_checked")
    applied = {}
    for ev in events:
      if ev["qid"] in ids and ev["in"] in wdig:
        applied.setdefault(ids[ev["qid"]], set()).update(wdig[ev["in"]])
    nw = len(ws)
    for qi in ids:
      if qi >= nw:
        continue                     # state / activation quantizers have no weight
      got = applied.get(qi, set())
      if got != {qi}:
        ctx.violation(dict(base, kind="reported_quantizer_not_applied_to_its_weight", slot=qi if qi < 3 else 3),
                      "get_quantizers()[%d] was applied to weight tensors %s (expected exactly [%d])" % (qi, sorted(got), qi),
                      {"config": {k: str(v) for k, v in c.items()}})
    # a weight that has no reported quantizer must not be quantized by anything
    for ev in events:
      if ev["in"] in wdig:
        for wi_ in wdig[ev["in"]]:
          if wi_ < len(qs) and qs[wi_] is None:
            ctx.violation(dict(base, kind="unreported_quantizer_applied_to_weight"),
                          "weight %d has no reported quantizer but %s was applied to it" % (wi_, ev["cls"]), None)
  ctx.sample({"config": {k: (list(v) if isinstance(v, tuple) else v) for k, v in c.items() if k not in ("idx", "seed")},
              "max_abs_diff": d, "quantizers": [str(q) if q is not None else None for q in qs]})
