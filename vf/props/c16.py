"""C16 - qtools multiplier output types represent every product of their operand types.

A postcondition contract (icontract when importable, plain wrapper otherwise) is
installed on `MultiplierFactory.make_multiplier`; the workload drives it over the
grid of operand types.  Operands are built the way qtools builds them (qkeras
quantizer -> QuantizerFactory.make_quantizer -> convert_qkeras_quantizer), and the
conversion itself is checked against the documented lattice of the quantizer.
"""
import random

from vf.gen import qtypes as qt
from vf.ref import types as ty

PID = "C16"
RULE = ("one case = one weight operand spec x every input operand spec of one kind (grid: fixed "
        "signed/unsigned bits 1..8 quick / ..16 thorough x every int_bits 0..bits-sign, built from "
        "quantized_bits / quantized_relu / quantized_tanh / 'int8'; power-of-two signed/unsigned bits "
        "1..8 quick / ..10 thorough (..12 in the random pairs) x max_value in {none, 2^k at both ends of "
        "the exponent range, one beyond, around 0}; "
        "ternary, binary +-1, binary 0/1 (three builders each incl. quantized_relu(1,1)), float "
        "(None, fp32, fp16)) plus seeded random pairs with a wide operand (bits 9..16 quick, 17..24 "
        "thorough).  The contract on make_multiplier checks every product of the operand extreme "
        "sets (and of ALL value pairs when the two operands hold <= 8 (quick) / 10 (thorough) "
        "storage bits together, which includes the <= 5 / 6 bit bound of the statement) for "
        "membership in the reported output lattice, zero, the implementation kind.  Non-trivial = "
        "distinct (weight type, input type) pair whose products reach the top magnitude bit or an "
        "end of the exponent range of the reported output type (a one-bit shortfall would show).")
ANCHORS = [("qkeras/qtools/quantized_operators/multiplier_factory.py", 31, 169),
           ("qkeras/qtools/quantized_operators/multiplier_impl.py", 65, 374),
           ("qkeras/qtools/quantized_operators/quantizer_impl.py", 33, 60),
           ("qkeras/qtools/quantized_operators/quantizer_impl.py", 83, 520)]
ASSUMPTIONS = [
    "type semantics (vf/ref/types.py): fixed (bits,int_bits,signed) = k*2^-f, f = max(0, bits-signed-int_bits), "
    "two's-complement / unsigned k; po2 = +-2^e, e a two's-complement number of bits-signed bits capped by "
    "floor(log2(max_value)) (Shifter docstring); ternary {-1,0,1}; binary {-1,1} / {0,1}; float = everything",
    "operand domain: fixed point with 0 <= int_bits <= bits - sign and bits >= 2 when signed (quantized_bits(1) is "
    "the +-1 sign quantizer); po2 max_value is a power of two (other values make 'max' ambiguous between the "
    "quantizer's round(log2) and the type's cap); po2 signed bits >= 2",
    "exempted product: (most negative value of w) x (most negative value of x) when both are negative -- the "
    "statement's two's-complement exemption, extended to -1 x most-negative for ternary / binary +-1 / po2 operands "
    "(the weaker reading, which the unchanged code satisfies); non-representable exempted products are counted as observations",
    "zero: must be representable whenever an operand type holds 0; a power-of-two output accepts 0 by the library's "
    "'minimum number stands for 0' convention; outputs without 0 whose operands cannot produce 0 are observations",
    "implementation kind expected from the operand kinds: float operand -> mul; else binary 0/1 operand -> and; "
    "binary+-1 x binary+-1 -> xor; else ternary / binary+-1 operand -> mux; po2 x po2 -> add; po2 x fixed -> shifter; "
    "fixed x fixed -> mul (class docstrings of multiplier_impl).  The ASCII table in make_multiplier's docstring is "
    "mis-aligned (6 entries in a 5-column row, xor for ternary x binary 0/1); its literal transcription is compared "
    "as an observation only",
    "a ternary-class output must report at least 2 bits (three values)",
]
TIMEOUT = {"quick": 600, "thorough": 3000}
WORKERS = {"quick": 16, "thorough": 16}
EXHAUSTIVE = {"quick": False, "thorough": False}
BRUTE_BITS = {"quick": 8, "thorough": 10}
MAX_BITS = {"quick": 8, "thorough": 16}

_S = {"ctx": None, "tier": "quick", "ops": None, "mf": None, "engine": None}


def thresholds(tier):
  # about one third of what the unchanged tree measures (quick, seed 0: 72k type pairs, 3.45M products,
  # 22k brute-forced type pairs with 2.0M products, 74k contract evaluations)
  if tier == "quick":
    return {"type_pairs": 24000, "products_checked": 1100000, "brute_force_type_pairs": 7000,
            "brute_force_products": 650000, "contract_evals": 24000, "conversions_checked": 500,
            "impl_kind_checked": 24000, "zero_checked": 15000, "float_pairs": 500,
            "random_wide_pairs": 2000, "distinct_nontrivial": 17000}
  return THOROUGH_THRESHOLDS


# thorough, seed 0 measured: 291k type pairs, 18.8M products, 40k brute-forced type pairs with 11.4M
# products, 295k contract evaluations (before the random pairs were raised from 40k to 120k)
THOROUGH_THRESHOLDS = {"type_pairs": 100000, "products_checked": 6000000, "brute_force_type_pairs": 13000,
                       "brute_force_products": 3700000, "contract_evals": 100000, "conversions_checked": 1000,
                       "impl_kind_checked": 100000, "zero_checked": 80000, "float_pairs": 1300,
                       "random_wide_pairs": 40000, "distinct_nontrivial": 75000}


# ------------------------------------------------------------ workload
def cases(tier, seed):
  rnd = random.Random(seed * 31 + 16)
  g = qt.grid(MAX_BITS[tier])
  out = []
  for w in g:
    for xk in qt.KINDS:
      out.append({"w": w, "xk": xk})
  lo, hi = (9, 16) if tier == "quick" else (17, 24)
  npairs = 6000 if tier == "quick" else 120000
  small_hi = MAX_BITS[tier]
  chunk = []
  for _ in range(npairs):
    a = qt.random_spec(rnd, lo, hi)
    b = qt.random_spec(rnd, 1, small_hi) if rnd.random() < 0.6 else qt.random_spec(rnd, lo, hi)
    if rnd.random() < 0.5:
      a, b = b, a
    chunk.append([a, b])
    if len(chunk) == 30:
      out.append({"pairs": chunk})
      chunk = []
  if chunk:
    out.append({"pairs": chunk})
  # po2 weights / inputs whose max_value is NOT a power of two: the operand lattice is *observed* by running the
  # real quantizer (quantized_po2 clips to max_value and then rounds log2, so max_value=3 emits 4)
  for bits in (3, 4, 5, 6):
    for mv in (3.0, 6.0, 7.0, 12.0, 1.5, 24.0, 100.0):    # > 1 only: max_value <= 1 is the exponent-range mismatch F-C18-3
      for wcls in ("quantized_po2", "quantized_relu_po2"):
        out.append({"observed": {"wcls": wcls, "bits": bits, "mv": mv}})
  rnd.shuffle(out)
  for i, c in enumerate(out):
    c["idx"], c["seed"] = i, seed
  return out


# ------------------------------------------------------------ oracle
def expected_impl(kw, kx):
  """What the operand kinds call for (see ASSUMPTIONS)."""
  ks = (kw, kx)
  if "float" in ks:
    return "mul"
  if "b01" in ks:
    return "and"
  if kw == "bpm" and kx == "bpm":
    return "xor"
  if kw in ("t", "bpm") or kx in ("t", "bpm"):
    return "mux"
  po2 = [k in ("ps", "pu") for k in ks]
  if all(po2):
    return "add"
  if any(po2):
    return "shifter"
  return "mul"


# literal reading of the drawing in make_multiplier's docstring (rows w, columns x:
# qb, po2, ternary, binary+-1, binary01); '?' = mux, '^' = xor, '&' = and
_DOC_ROWS = {
    "f": ["mul", "shifter", "mux", "mux", "mux"],
    "p": ["shifter", "add", "mux", "xor", "mux"],
    "t": ["mux", "mux", "mux", "mux", "xor"],
    "bpm": ["mux", "xor", "mux", "xor", "xor"],
    "b01": ["mux", "mux", "xor", "xor", "xor"],
}
_DOC_COL = {"f": 0, "p": 1, "t": 2, "bpm": 3, "b01": 4}


def _doc_kind(k):
  return {"fs": "f", "fu": "f", "ps": "p", "pu": "p"}.get(k, k)


def _tight(O, p):
  """Does p need the top magnitude bit / an end of the exponent range of O?"""
  if O.kind == "fixed":
    m = ty.max_abs(O)
    return m is not None and 2 * abs(p) > m
  if O.kind == "po2":
    if p == 0:
      return False
    e = ty.log2_exact(abs(p))
    lo, hi = ty.exp_range(O)
    return e is not None and (e == hi or e == lo)
  return True


def check_multiplier(wq, xq, m):
  """The postcondition.  Records what it finds in the worker's ctx and returns
  False when the call violated the property."""
  ctx = _S["ctx"]
  ctx.count("contract_evals")
  W, X, O = ty.from_reported(wq), ty.from_reported(xq), ty.from_reported(m.output)
  kw, kx, ko = ty.short_kind(W), ty.short_kind(X), ty.short_kind(O)
  impl = m.implemented_as()
  base = {"w": kw, "x": kx, "wc": type(wq).__name__, "xc": type(xq).__name__, "impl": impl, "out": ko}
  lit = {"w": ty.fields(wq), "x": ty.fields(xq), "out": ty.fields(m.output), "impl": impl,
         "class": type(m).__name__}
  good = True
  ctx.seen("impl_by_kind_pair", "%s x %s -> %s/%s" % (kw, kx, impl, ko))

  # implementation kind
  ctx.count("impl_kind_checked")
  ctx.evals(1)
  want = expected_impl(kw, kx)
  if impl != want:
    good = False
    ctx.violation(dict(base, kind="wrong_implementation_kind", expected=want),
                  "%s x %s implemented as %r, the operand kinds call for %r" % (kw, kx, impl, want), lit)
  if "float" not in (kw, kx):
    doc = _DOC_ROWS[_doc_kind(kw)][_DOC_COL[_doc_kind(kx)]]
    if doc != impl:
      ctx.observe("docstring_drawing_says_%s_code_says_%s" % (doc, impl), "%s x %s" % (kw, kx))

  # floating point
  if "float" in (kw, kx):
    ctx.count("float_pairs")
    ctx.evals(1)
    need = max(t.bits for t in (W, X) if t.kind == "float")
    if O.kind != "float":
      good = False
      ctx.violation(dict(base, kind="float_operand_non_float_output"),
                    "a floating-point operand but the output type is %s" % ty.describe(O), lit)
    elif O.bits < need:
      good = False
      ctx.violation(dict(base, kind="float_output_narrower_than_operand"),
                    "float%d operand, float%d output" % (need, O.bits), lit)
    return good
  if O.kind == "float":
    ctx.observe("non_float_operands_float_output", lit)
    return good
  if ty.is_empty(W) or ty.is_empty(X):
    ctx.skip("empty_operand_lattice")
    return good
  if O.kind == "fixed" and O.bits < 1:
    good = False
    ctx.violation(dict(base, kind="degenerate_output_type"), "output type %s holds nothing" % ty.describe(O), lit)
    return good
  ctx.count("type_pairs")

  if O.kind == "ternary" and O.bits < 2:
    good = False
    ctx.violation(dict(base, kind="ternary_output_reports_fewer_than_2_bits"),
                  "output is ternary {-1,0,1} but reports bits=%d, int_bits=%d" % (O.bits, O.int_bits), lit)

  # zero
  if ty.has_zero(W) or ty.has_zero(X):
    ctx.count("zero_checked")
    ctx.evals(1)
    if O.kind == "po2":
      ctx.count("zero_by_po2_minimum_convention")
    elif ty.why_not(O, ty.ZERO) is not None:
      good = False
      ctx.violation(dict(base, kind="zero_not_representable"),
                    "an operand can be 0 but 0 is not a value of %s" % ty.describe(O), lit)
  elif not ty.has_zero(O):
    ctx.observe("output_without_zero_operands_never_zero", "%s x %s -> %s" % (kw, kx, ko))

  # products
  brute = ty.storage_bits(W) + ty.storage_bits(X) <= BRUTE_BITS[_S["tier"]]
  if brute:
    vw, vx = ty.enumerate_values(W), ty.enumerate_values(X)
    ctx.count("brute_force_type_pairs")
    ctx.count("brute_force_products", len(vw) * len(vx))
  else:
    vw, vx = ty.extremes(W), ty.extremes(X)
  mw, mx = ty.vmin(W), ty.vmin(X)
  exempt = mw < 0 and mx < 0
  tight = False
  failed = set()
  n = 0
  for a in vw:
    for b in vx:
      p = a * b
      n += 1
      why = ty.why_not(O, p, zero_ok=True)
      if exempt and a == mw and b == mx:
        if why is not None:
          ctx.observe("exempted_most_negative_pair_not_representable/%s x %s" % (kw, kx),
                      {"a": ty.fmt(a), "b": ty.fmt(b), "out": ty.describe(O)})
        continue
      if why is None:
        if not tight and _tight(O, p):
          tight = True
        continue
      short = ty.shortfall_bits(O, p) if why in ("above_max", "below_min", "exp_above_max", "exp_below_min") else None
      tag = (why, short)
      if tag in failed:
        continue
      failed.add(tag)
      good = False
      sig = dict(base, kind="product_not_representable", fail=why)
      sig["short_bits"] = None if short is None else (short if short <= 2 else "3+")
      ctx.violation(sig, "%s * %s = %s is not a value of the reported output %s (%s); w=%s x=%s" % (
          ty.fmt(a), ty.fmt(b), ty.fmt(p), ty.describe(O), why, ty.describe(W), ty.describe(X)),
                    dict(lit, a=ty.fmt(a), b=ty.fmt(b), product=ty.fmt(p)))
  ctx.count("products_checked", n)
  ctx.evals(n)
  if tight:
    ctx.nontrivial(ty.describe(W), ty.describe(X), type(wq).__name__, type(xq).__name__)
  if not failed:
    ctx.sample({"w": ty.fields(wq), "x": ty.fields(xq), "out": ty.fields(m.output), "impl": impl,
                "products": n, "all_value_pairs": brute})
  return good


def install(ctx, tier=None):
  """Installs the contract (also usable by other properties' workers)."""
  from qkeras.qtools.quantized_operators import multiplier_factory
  from vf.monitors import contracts
  _S["ctx"] = ctx
  _S["tier"] = tier or ctx.tier
  engine = contracts.install_post(
      multiplier_factory.MultiplierFactory, "make_multiplier",
      lambda weight_quantizer, input_quantizer, result: check_multiplier(weight_quantizer, input_quantizer, result),
      "C16: every product of operand values is a value of the reported multiplier output type")
  _S["engine"] = engine
  ctx.seen("contract_engine", engine)
  return engine


def setup(ctx):
  from qkeras.qtools.quantized_operators import multiplier_factory
  install(ctx)
  _S["ops"] = qt.Operands(ctx, PID)
  _S["mf"] = multiplier_factory.MultiplierFactory()
  _S["grid"] = qt.grid(MAX_BITS[ctx.tier])


def run_pair(ctx, ws, xs):
  from vf.monitors.contracts import ContractFail
  ops = _S["ops"]
  w, x = ops.get(ws), ops.get(xs)
  if w is None or x is None:
    ctx.skip("operand_conversion_raised")
    return
  base = {"w": ws["k"], "x": xs["k"], "wq": ws["q"], "xq": xs["q"]}
  ok, m = ctx.call(base, _S["mf"].make_multiplier, w[1], x[1], _allowed=(ContractFail,))
  ctx.count("make_multiplier_calls")
  if not ok and isinstance(m, ContractFail):
    ctx.count("contract_failures")
  # ---- the type a multiplier reports must stay what it was when it was returned: qtools builds several
  # multipliers from one factory (fused batch-norm, merge layers) and reads them later
  held = _S.setdefault("held", [])
  for (m0, snap0, base0) in held:
    now = ty.fields(m0.output)
    ctx.count("earlier_results_reread")
    if now != snap0:
      ctx.violation({"kind": "earlier_multiplier_output_rewritten_by_later_call", "w": base0["w"], "x": base0["x"]},
                    "multiplier for (%s x %s) reported %r when returned, %r after a later make_multiplier(%s x %s)" % (
                        base0["wq"], base0["xq"], snap0, now, ws["q"], xs["q"]), {"earlier": base0, "later": base})
      held.remove((m0, snap0, base0))
      break
  if ok and hasattr(m, "output"):
    held.append((m, ty.fields(m.output), base))
    if len(held) > 6:
      held.pop(0)


def _observed_values(q, signed_probe=True):
  """Distinct values the real qkeras quantizer emits over a dense log/linear probe grid (as Fractions)."""
  import numpy as np
  import tensorflow as tf
  from fractions import Fraction
  # magnitudes stay below 2^9: far beyond that x + (-x + xq) absorbs the code in float32 and the "values" are artefacts
  mags = np.concatenate([2.0 ** np.linspace(-40, 9, 981), np.linspace(0, 300, 1201)])
  x = np.concatenate([mags, -mags, [0.0]]).astype(np.float32)
  y = np.unique(np.asarray(q(tf.constant(x)), dtype=np.float64))
  return [Fraction(float(v)) for v in y]


def run_observed(case, ctx):
  """Operand lattices observed from the running quantizers (non power-of-two max_value)."""
  from qkeras import quantizers as Q
  from qkeras.qtools.quantized_operators import quantizer_factory
  from vf.monitors.contracts import ContractFail
  o = case["observed"]
  wk = getattr(Q, o["wcls"])(o["bits"], max_value=o["mv"])
  fac = quantizer_factory.QuantizerFactory()
  xs = [("fs", Q.quantized_bits(4, 1, 1)), ("fs", Q.quantized_bits(6, 3, 0)), ("fu", Q.quantized_relu(4, 2)),
        ("fu", Q.quantized_relu(5, 5)), ("bpm", Q.binary(alpha=1.0)), ("t", Q.ternary(alpha=1.0))]
  W = _observed_values(wk)
  for xkind, xk in xs:
    X = _observed_values(xk)
    for order in ("w_po2", "x_po2"):
      a_k, b_k = (wk, xk) if order == "w_po2" else (xk, wk)
      A, B = (W, X) if order == "w_po2" else (X, W)
      base = {"observed_operands": True, "po2": o["wcls"], "other": xkind, "order": order}
      ok, ab = ctx.call(dict(base, op="convert"), lambda: (fac.make_quantizer(a_k), fac.make_quantizer(b_k)))
      if not ok:
        continue
      ok, m = ctx.call(dict(base, op="make_multiplier"), _S["mf"].make_multiplier, ab[0], ab[1], _allowed=(ContractFail,))
      if not ok:
        continue
      ctx.count("observed_operand_pairs")
      O = ty.from_reported(m.output)
      if O.kind == "float":
        continue
      ea = sorted(set([min(A), max(A)] + [v for v in A if v > 0][:1] + [v for v in A if v < 0][-1:]))
      eb = sorted(set([min(B), max(B)] + [v for v in B if v > 0][:1] + [v for v in B if v < 0][-1:]))
      mina, minb = min(A), min(B)
      n = 0
      for a in ea:
        for b in eb:
          if mina < 0 and minb < 0 and a == mina and b == minb:
            continue
          n += 1
          why = ty.why_not(O, a * b, zero_ok=True)
          if why is not None:
            short = ty.shortfall_bits(O, a * b) if why in ("above_max", "below_min", "exp_above_max", "exp_below_min") else None
            if O.kind == "po2" and why in ("exp_above_max",) and True:
              # the reported po2 type caps its exponent at floor(log2(max_value)) in vf/ref/types.py; with a non
              # power-of-two max_value that reading is ambiguous, so po2-typed outputs are observed only here
              ctx.observe("observed_operands_po2_output_cap_ambiguous", {"case": o, "product": ty.fmt(a * b)})
              continue
            ctx.violation(dict(base, kind="observed_product_not_representable", fail=why,
                               short_bits=None if short is None else (short if short <= 2 else "3+"), impl=m.implemented_as()),
                          "%s * %s = %s (values emitted by the real quantizers, max_value=%s) is not a value of the reported output %s" % (
                              ty.fmt(a), ty.fmt(b), ty.fmt(a * b), o["mv"], ty.describe(O)),
                          {"case": o, "other": str(xk), "out": ty.fields(m.output)})
      ctx.count("observed_products_checked", n)
      ctx.evals(n)
      ctx.nontrivial("observed", o["wcls"], o["bits"], o["mv"], xkind, order)


def run_case(case, ctx):
  if "observed" in case:
    run_observed(case, ctx)
    return
  if "pairs" in case:
    for ws, xs in case["pairs"]:
      ctx.count("random_wide_pairs")
      run_pair(ctx, ws, xs)
    return
  for xs in _S["grid"]:
    if xs["k"] == case["xk"]:
      run_pair(ctx, case["w"], xs)


def finalize(ctx):
  from vf.monitors import contracts
  contracts.uninstall_all()
