"""C12 - model_quantize converts exactly what the configuration names and nothing else."""
import copy
import json
import random

import numpy as np

from vf.gen import models as gm

PID = "C12"
RULE = ("one case = (generated sequential/branched float Keras model of 2..8 layers over dense / conv1d / conv2d / "
        "depthwise / separable / simple RNN / LSTM / GRU / bidirectional / pooling / batch-norm / activation / "
        "ReLU / LeakyReLU / flatten / dropout / add / concatenate, a generated quantization dictionary with "
        "per-name, per-class, conflicting, partial entries and activation maps, activation_bits, "
        "transfer_weights); snapshots of the source model JSON, weights and the dictionaries are compared "
        "before/after; every layer is checked against an independent reading of the dictionary semantics. "
        "Non-trivial = distinct (model, dictionary) pairs with at least one selected and one unselected layer.")
ANCHORS = [("qkeras/utils.py", 579, 1026), ("qkeras/utils.py", 442, 450), ("qkeras/utils.py", 416, 439),
           ("qkeras/utils.py", 678, 682)]
ASSUMPTIONS = [
    "expected quantizers of a selected layer = those of the same quantized class constructed directly from the configured strings",
    "hyper-parameter comparison ignores initializer / constraint / quantizer / range keys that the quantized classes add or wrap",
]
TIMEOUT = {"quick": 1200, "thorough": 5400}
EXCLUDE = ("activation", "kernel_range", "bias_range", "depthwise_range", "pointwise_range", "recurrent_range")


def thresholds(tier):
  return {"models": 40, "layers_checked": 150, "selected_layers": 40, "unselected_layers": 40,
          "snapshots_compared": 40, "weight_transfers_checked": 10, "distinct_nontrivial": 20}


def cases(tier, seed):
  n = 96 if tier == "quick" else 1200
  out = []
  for i in range(n):
    rnd = random.Random(seed * 7919 + i)
    spec = gm.float_model_spec(rnd)
    out.append({"spec": spec, "dict": gm.quantization_dict(spec, rnd), "bits": rnd.choice([3, 4, 6]),
                "transfer": bool(rnd.randint(0, 1)), "idx": i, "seed": seed})
  # focus: models with a *selected* Bidirectional wrapper that carries an explicit backward layer (rare in the
  # random stream above); drawn by rejection from the same generators
  nf = 8 if tier == "quick" else 80
  j = 0
  while nf and j < 20000:
    rnd = random.Random(seed * 104723 + 1000003 + j)
    j += 1
    spec = gm.float_model_spec(rnd)
    bi = [l for l in spec["layers"] if l["t"] == "Bidirectional" and l["kw"].get("backward")]
    if not bi:
      continue
    d = gm.quantization_dict(spec, rnd)
    if not any(l["name"] in d for l in bi) and "QBidirectional" not in d:
      continue
    out.append({"spec": spec, "dict": d, "bits": rnd.choice([3, 4, 6]), "transfer": bool(rnd.randint(0, 1)),
                "idx": len(out), "seed": seed})
    nf -= 1
  # focus 2: a class entry for one pooling class only, while the model also holds the sibling pooling class
  # (an entry for QAveragePooling2D says nothing about GlobalAveragePooling2D layers, and vice versa)
  nf, j = (6 if tier == "quick" else 60), 0
  while nf and j < 40000:
    rnd = random.Random(seed * 15485867 + 2000003 + j)
    j += 1
    spec = gm.float_model_spec(rnd)
    kinds = {l["t"] for l in spec["layers"]}
    if not {"AveragePooling2D", "GlobalAveragePooling2D"} <= kinds:
      continue
    d = gm.quantization_dict(spec, rnd)
    names = {l["name"] for l in spec["layers"] if l["t"] in ("AveragePooling2D", "GlobalAveragePooling2D")}
    if ("QAveragePooling2D" in d) == ("QGlobalAveragePooling2D" in d) or names & set(d):
      continue
    out.append({"spec": spec, "dict": d, "bits": rnd.choice([3, 4, 6]), "transfer": bool(rnd.randint(0, 1)),
                "idx": len(out), "seed": seed})
    nf -= 1
  return out


def qdesc(q):
  if q is None:
    return None
  try:
    cfg = q.get_config()
  except Exception:  # pylint: disable=broad-except
    cfg = {}
  return (type(q).__name__, json.dumps({k: str(v) for k, v in sorted(cfg.items())}), str(q))


def entry_for(d, name, *class_keys):
  if name in d:
    return d[name], "name"
  for k in class_keys:
    if k in d:
      return d[k], "class"
  return None, None


def expected(l, d, bits):
  """Independent reading of the documented dictionary semantics for one source layer.
  Returns None (not selected) or dict(qclass, quantizers {role: string}, activation)."""
  cn = type(l).__name__
  cfg = l.get_config()
  name = l.name

  def act_rule(entry, src_act):
    aq = entry.get("activation_quantizer") if isinstance(entry, dict) else None
    if aq:
      return ("quantizer", aq)
    if src_act in ("relu", "tanh", "sigmoid"):
      return ("quantizer", "quantized_%s(%d)" % (src_act, bits))
    return ("same", src_act)

  if cn in ("SeparableConv1D", "SeparableConv2D"):
    # the quantized class takes depthwise_/pointwise_quantizer (it has no kernel_quantizer)
    e, how = entry_for(d, name, "Q" + cn)
    if not isinstance(e, dict) or (e.get("depthwise_quantizer") is None and e.get("kernel_quantizer") is None):
      return None
    return {"qclass": "Q" + cn, "how": how,
            "roles": {"depthwise_quantizer": e.get("depthwise_quantizer"), "pointwise_quantizer": e.get("pointwise_quantizer"),
                      "bias_quantizer": e.get("bias_quantizer") if cfg["use_bias"] else None},
            "activation": act_rule(e, cfg["activation"])}
  if cn in ("Dense", "Conv1D", "Conv2D"):
    e, how = entry_for(d, name, "Q" + cn)
    if not isinstance(e, dict) or e.get("kernel_quantizer") is None:
      return None
    return {"qclass": "Q" + cn, "how": how,
            "roles": {"kernel_quantizer": e["kernel_quantizer"],
                      "bias_quantizer": e.get("bias_quantizer") if cfg["use_bias"] else None},
            "activation": act_rule(e, cfg["activation"])}
  if cn == "DepthwiseConv2D":
    e, how = entry_for(d, name, "QDepthwiseConv2D")
    if not isinstance(e, dict) or e.get("depthwise_quantizer") is None:
      return None
    return {"qclass": "QDepthwiseConv2D", "how": how,
            "roles": {"depthwise_quantizer": e["depthwise_quantizer"],
                      "bias_quantizer": e.get("bias_quantizer") if cfg["use_bias"] else None},
            "activation": act_rule(e, cfg["activation"])}
  if cn in ("SimpleRNN", "LSTM", "GRU"):
    e, how = entry_for(d, name, "Q" + cn)
    if not isinstance(e, dict) or e.get("kernel_quantizer") is None:
      return None
    return {"qclass": "Q" + cn, "how": how,
            "roles": {"kernel_quantizer": e["kernel_quantizer"], "recurrent_quantizer": e.get("recurrent_quantizer"),
                      "bias_quantizer": e.get("bias_quantizer") if cfg["use_bias"] else None,
                      "state_quantizer": e.get("state_quantizer")},
            "recurrent_activation": e.get("recurrent_activation_quantizer") if cn in ("LSTM", "GRU") else None,
            "activation": act_rule(e, cfg["activation"])}
  if cn == "Bidirectional":
    e, how = entry_for(d, name, "QBidirectional")
    if not isinstance(e, dict) or e.get("kernel_quantizer") is None:
      return None
    icfg = cfg["layer"]["config"]
    return {"qclass": "QBidirectional", "how": how, "inner": "Q" + cfg["layer"]["class_name"],
            "roles": {"kernel_quantizer": e["kernel_quantizer"], "recurrent_quantizer": e.get("recurrent_quantizer"),
                      "bias_quantizer": e.get("bias_quantizer") if icfg["use_bias"] else None,
                      "state_quantizer": e.get("state_quantizer")},
            "recurrent_activation": (e.get("recurrent_activation_quantizer")
                                     if cfg["layer"]["class_name"] in ("LSTM", "GRU") else None),
            "activation": act_rule(e, icfg["activation"])}
  if cn == "Activation":
    e, how = entry_for(d, name, "QActivation", "QAdaptiveActivation")
    if e is None:
      return None
    a = cfg["activation"]
    if isinstance(e, dict):
      if not e.get(a):
        return None
      return {"qclass": "QActivation", "how": how, "roles": {}, "activation": ("quantizer", e[a])}
    return {"qclass": "QActivation", "how": how, "roles": {}, "activation": ("quantizer", e)}
  if cn in ("ReLU", "LeakyReLU"):
    e, how = entry_for(d, name, "QActivation")
    if e is None:
      return None
    slope = cfg.get("negative_slope", cfg.get("alpha", 0.0))
    key = "leakyrelu" if slope > 0 else "relu"
    if isinstance(e, dict):
      if not e.get(key):
        return None
      return {"qclass": "QActivation", "how": how, "roles": {}, "activation": ("quantizer", e[key])}
    return {"qclass": "QActivation", "how": how, "roles": {}, "activation": ("quantizer", e)}
  if cn == "BatchNormalization":
    if name not in d and "QBatchNormalization" not in d:
      return None
    e, how = entry_for(d, name, "QBatchNormalization")
    e = e if isinstance(e, dict) else {}
    return {"qclass": "QBatchNormalization", "how": how,
            "roles": {k: e.get(k) for k in ("gamma_quantizer", "beta_quantizer", "mean_quantizer", "variance_quantizer")},
            "activation": None}
  if cn in ("AveragePooling2D", "GlobalAveragePooling2D"):
    e, how = entry_for(d, name, "Q" + cn)
    if not isinstance(e, dict) or e.get("average_quantizer") is None:
      return None
    return {"qclass": "Q" + cn, "how": how, "roles": {"average_quantizer": e["average_quantizer"]},
            "activation": ("quantizer", e["activation_quantizer"]) if e.get("activation_quantizer") else None}
  return None


def direct_quantizers(qclass, roles):
  """The quantizers the quantized class itself builds from the strings."""
  import qkeras
  ctor = getattr(qkeras, qclass)
  if qclass in ("QDense", "QSimpleRNN", "QLSTM", "QGRU"):
    probe = ctor(1, **roles)
  elif qclass in ("QConv1D", "QConv2D", "QSeparableConv1D", "QSeparableConv2D"):
    probe = ctor(1, 1, **roles)
  elif qclass == "QDepthwiseConv2D":
    probe = ctor(1, **roles)
  elif qclass == "QAveragePooling2D":
    probe = ctor(**roles)
  else:
    probe = ctor(**roles)
  return [qdesc(q) for q in probe.get_quantizers()]


def run_case(case, ctx):
  import tensorflow as tf
  import qkeras
  from qkeras import quantizers as Q
  from qkeras.utils import model_quantize
  from vf.monitors import snap
  tf.keras.backend.clear_session()
  spec, d, bits, tw = case["spec"], case["dict"], case["bits"], case["transfer"]
  model = gm.build(spec)
  for w in model.weights:
    w.assign(np.random.default_rng(case["idx"]).normal(0, 0.5, size=w.shape).astype(np.float32))
  custom = {"UserRelu": tf.keras.layers.ReLU, "user_table": {"a": [1, 2, 3]}}     # caller-owned, must come back untouched
  before = snap.take(model=model, objects={"quantizer_config": d, "custom_objects": custom})
  base = {"op": "model_quantize"}
  ctx.count("models")
  try:
    qm = model_quantize(model, d, bits, custom_objects=custom, transfer_weights=tw)
    ok = True
  except Exception as e:  # pylint: disable=broad-except
    import re
    import traceback
    ok = False
    where = ctx.repo_frame(e.__traceback__)
    if where is None:
      raise
    m = re.search(r"deserializing class '(\w+)'", str(e))
    ctx.violation({"kind": "raises", "op": "model_quantize", "exc": type(e).__name__, "where": where,
                   "failing_class": m.group(1) if m else "unknown"},
                  "%s: %s" % (type(e).__name__, str(e)[:300]), {"dict": d, "traceback": traceback.format_exc()[-1200:]})
  after = snap.take(model=model, objects={"quantizer_config": d, "custom_objects": custom})
  ctx.count("snapshots_compared")
  for what in snap.diff(before, after):
    ctx.violation({"kind": "caller_state_modified", "what": what}, "model_quantize changed the caller's %s" % what, None)
  if not ok:
    # attribute the crash to the layer classes selected by the dictionary
    return
  src, dst = model.layers, qm.layers
  if [l.name for l in src] != [l.name for l in dst]:
    ctx.violation({"kind": "layer_names_or_order_changed"}, "%s vs %s" % ([l.name for l in src], [l.name for l in dst]), None)
    return
  # connectivity
  c0 = {l["name"]: json.dumps(l.get("inbound_nodes")) for l in json.loads(model.to_json())["config"]["layers"]}
  c1 = {l["name"]: json.dumps(l.get("inbound_nodes")) for l in json.loads(qm.to_json())["config"]["layers"]}
  if c0 != c1:
    ctx.violation({"kind": "connectivity_changed"}, "inbound nodes differ", None)
  n_sel = n_unsel = 0
  for l, ql in zip(src, dst):
    cn, qn = type(l).__name__, type(ql).__name__
    ctx.count("layers_checked")
    ctx.evals(1)
    if tuple(l.output_shape) != tuple(ql.output_shape):
      ctx.violation({"kind": "output_shape_changed", "layer_class": cn}, "%s: %s -> %s" % (l.name, l.output_shape, ql.output_shape), None)
    exp = expected(l, d, bits)
    sig = {"layer_class": cn}
    # weight transfer concerns every layer of the new model (selected or not, trainable or not)
    if tw and l.get_weights():
      ctx.count("weight_transfers_checked")
      a, b = l.get_weights(), ql.get_weights()
      if len(a) != len(b) or not all(np.array_equal(x, y) for x, y in zip(a, b)):
        which = [w.name.split("/")[-1].split(":")[0] for w, x, y in zip(l.weights, a, b) if not np.array_equal(x, y)] if len(a) == len(b) else ["count"]
        ctx.violation(dict(sig, kind="weights_not_transferred"), "%s: %s differ from the source" % (l.name, which), None)
    if exp is None:
      n_unsel += 1
      ctx.count("unselected_layers")
      if qn != cn:
        ctx.violation(dict(sig, kind="unselected_layer_converted", to=qn), "%s (%s) has no applicable entry but became %s" % (l.name, cn, qn), {"dict": d})
      elif json.dumps(snap.plain(ql.get_config()), sort_keys=True) != json.dumps(snap.plain(l.get_config()), sort_keys=True):
        ctx.violation(dict(sig, kind="unselected_layer_config_changed"), "%s config changed" % l.name, None)
      continue
    n_sel += 1
    ctx.count("selected_layers")
    ctx.seen("selected_classes", cn + ":" + exp["how"])
    if qn != exp["qclass"]:
      ctx.violation(dict(sig, kind="selected_layer_not_converted", got=qn), "%s (%s) selected by %s entry but is %s" % (l.name, cn, exp["how"], qn), {"dict": d})
      continue
    target = ql
    qclass = exp["qclass"]
    if qclass == "QBidirectional":
      target = ql.forward_layer
      qclass = exp["inner"]
      if type(target).__name__ != qclass:
        ctx.violation(dict(sig, kind="bidirectional_inner_not_converted", got=type(target).__name__), l.name, None)
        continue
      bwd = getattr(ql, "backward_layer", None)
      ctx.count("bidirectional_backward_checked")
      if bwd is None or type(bwd).__name__ != qclass:
        ctx.violation(dict(sig, kind="bidirectional_inner_not_converted", got=type(bwd).__name__, which="backward"),
                      "%s: backward layer is %s, expected %s" % (l.name, type(bwd).__name__, qclass), None)
      elif exp["roles"]:
        try:
          gb = [qdesc(q) for q in bwd.get_quantizers()]
          gf = [qdesc(q) for q in target.get_quantizers()]
        except Exception:  # pylint: disable=broad-except
          gb = gf = None
        if gb != gf:
          ctx.violation(dict(sig, kind="bidirectional_backward_quantizers_differ_from_forward"),
                        "%s: backward %s, forward %s" % (l.name, [g and g[2] for g in (gb or [])], [g and g[2] for g in (gf or [])]), None)
    if exp["roles"] or qclass == "QBatchNormalization":
      ok2, want = ctx.call(dict(sig, op="direct_constructor"), direct_quantizers, qclass, exp["roles"])
      if ok2:
        got = [qdesc(q) for q in target.get_quantizers()]
        if got != want:
          role = "?"
          for i, (a, b) in enumerate(zip(got, want)):
            if a != b:
              role = list(exp["roles"])[i] if i < len(exp["roles"]) else "extra"
              break
          ctx.violation(dict(sig, kind="quantizers_differ_from_configured", role=role, selected_by=exp["how"]),
                        "%s: got %s, configured strings give %s" % (l.name, [g and g[2] for g in got], [w and w[2] for w in want]),
                        {"dict": d})
    if exp["activation"] is not None:
      kind, val = exp["activation"]
      gota = target.activation if hasattr(target, "activation") else None
      if qn == "QActivation":
        gota = ql.quantizer
      if kind == "quantizer":
        try:
          wanta = qdesc(Q.get_quantizer(val))
        except Exception:  # pylint: disable=broad-except
          wanta = ("unparsable", val, val)
        if qdesc(gota) != wanta if not callable(wanta) else False:
          if qdesc(gota)[2] != wanta[2] or qdesc(gota)[0] != wanta[0]:
            ctx.violation(dict(sig, kind="activation_differs_from_configured"),
                          "%s: activation %s, expected %s" % (l.name, qdesc(gota)[2], wanta[2]), {"dict": d})
      else:
        nm = getattr(gota, "__name__", None) or (gota if isinstance(gota, str) else type(gota).__name__)
        if nm != val and not (val is None and nm in ("linear", "NoneType")):
          ctx.violation(dict(sig, kind="plain_activation_changed"), "%s: %r -> %r" % (l.name, val, nm), None)
    # the gate activation of LSTM / GRU has its own dictionary entry; without one it is a hyper-parameter
    # like any other (compared below)
    ra = exp.get("recurrent_activation")
    if ra:
      ctx.count("recurrent_activation_entries")
      gotr = getattr(target, "recurrent_activation", None)
      try:
        wantr = qdesc(Q.get_quantizer(ra))
      except Exception:  # pylint: disable=broad-except
        wantr = ("unparsable", ra, ra)
      gr = qdesc(gotr) or ("None", "", "None")
      if gr[0] != wantr[0] or gr[2] != wantr[2]:
        ctx.violation(dict(sig, kind="recurrent_activation_differs_from_configured"),
                      "%s: recurrent activation %s, expected %s" % (l.name, gr[2], wantr[2]), {"dict": d})
    # non-quantization hyper-parameters
    sc, qc = snap.plain(l.get_config()), snap.plain(ql.get_config())
    for k, v in sc.items():
      if ra and k == "recurrent_activation":
        continue
      if k in EXCLUDE or k.endswith(("_initializer", "_constraint", "_quantizer", "_regularizer")) or k in ("layer", "backward_layer"):
        continue
      if cn in ("ReLU", "LeakyReLU") and k in ("max_value", "negative_slope", "threshold", "alpha"):
        continue
      if k in qc and json.dumps(qc[k], sort_keys=True) != json.dumps(v, sort_keys=True):
        ctx.violation(dict(sig, kind="hyper_parameter_changed", key=k), "%s.%s: %r -> %r" % (l.name, k, v, qc[k]), None)
  if n_sel and n_unsel:
    ctx.nontrivial(json.dumps(spec, sort_keys=True), json.dumps(d, sort_keys=True), bits, tw)
  ctx.sample({"layers": [(l["t"], l["name"]) for l in spec["layers"]], "dict": d, "activation_bits": bits,
              "transfer_weights": tw, "result_classes": [type(x).__name__ for x in dst]})
