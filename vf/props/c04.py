"""C04 - binary / ternary quantizers: code sets, sign/threshold rule, scales."""
import random

import numpy as np

from vf.ref import bt

PID = "C04"
RULE = ("one case = (class, alpha mode, use_01/threshold, tensor shape of rank 1..4, "
        "scale_axis, elements_per_scale, exponent bounds, tensor kind in {normal, zeros, "
        "zero channel, one huge element, tiny, constant sign, alternating sign, values on "
        "the threshold}); the quantizer is called eagerly and `scale` read back. "
        "Non-trivial = distinct cases with an auto scale or an adversarial tensor kind "
        "(hashed by configuration+shape+kind+seed).")
ANCHORS = [("qkeras/quantizers.py", 2058, 2121), ("qkeras/quantizers.py", 1699, 1765),
           ("qkeras/quantizers.py", 371, 506)]
ASSUMPTIONS = [
    "the least-squares reference adds the library's epsilon (1e-7) to the denominator, as the code does",
    "rank-1 tensors with an explicit grouping are outside the documented domain (observed only)",
    "|x| < FLT_MIN counts as zero of either sign; elements within 1e-5 relative of a threshold are skipped",
]
KERAS3_PASS = False
TIMEOUT = {"quick": 600, "thorough": 3000}

KINDS = ["normal", "zeros", "zero_channel", "huge_one", "tiny", "positive", "negative",
         "alternating", "on_threshold", "uniform"]


def thresholds(tier):
  return {"live.pytest_runs": 1, "live.elements": 27,
          "events.binary": 300, "events.ternary": 200, "scale_checked": 200,
          "groups_checked": 150, "po2_checked": 80, "threshold_rule_checked": 150,
          "distinct_nontrivial": 600}


def _shapes(rnd):
  return [(rnd.choice([4, 6, 8]),),
          (rnd.choice([2, 4, 6]), rnd.choice([2, 3, 4])),
          (rnd.choice([2, 4]), rnd.choice([2, 4]), rnd.choice([2, 3, 4])),
          (rnd.choice([1, 2]), rnd.choice([2, 4]), rnd.choice([2, 4]), rnd.choice([2, 3, 4]))]


def cases(tier, seed):
  rnd = random.Random(seed)
  out = []
  n_rep = 1 if tier == "quick" else 6
  for rep in range(n_rep):
    for shape in _shapes(rnd):
      rank = len(shape)
      for kind in KINDS:
        # binary
        for alpha in (None, 1.0, 2.0, 0.5, "auto", "auto_po2"):
          for use_01 in (False, True):
            groupings = [(None, None)]
            if isinstance(alpha, str) and rank >= 2:
              axes = list(range(rank))
              groupings.append((rnd.choice(axes), None))
              a = rnd.choice(axes)
              divs = [d for d in (2, 3, 4) if shape[a] % d == 0]
              if divs:
                groupings.append((a, rnd.choice(divs)))
              if rank >= 3:
                pair = sorted(rnd.sample(axes, 2))
                groupings.append((pair, None))
                d2 = [[d for d in (1, 2) if shape[ax] % d == 0] for ax in pair]
                groupings.append((pair, [rnd.choice(d2[0]), rnd.choice(d2[1])]))
                if all(shape[ax] % 2 == 0 for ax in pair):
                  groupings.append((pair, 2))
            for (sa, eps) in groupings:
              bounds = [(None, None)]
              if alpha == "auto_po2":
                bounds.append(rnd.choice([(-2, 1), (0, None), (None, -3), (-4, -4)]))
              for (lo, hi) in bounds:
                kw = {"use_01": use_01, "alpha": alpha}
                if sa is not None:
                  kw["scale_axis"] = sa
                if eps is not None:
                  kw["elements_per_scale"] = eps
                if lo is not None:
                  kw["min_po2_exponent"] = lo
                if hi is not None:
                  kw["max_po2_exponent"] = hi
                out.append({"cls": "binary", "kw": kw, "shape": list(shape), "kind": kind})
        # the stochastic-rounding option of binary / ternary at inference (learning phase 0) is the same function
        for alpha in (None, 2.0, "auto", "auto_po2"):
          out.append({"cls": "binary", "kw": {"alpha": alpha, "use_01": False, "use_stochastic_rounding": True},
                      "shape": list(shape), "kind": kind})
          if isinstance(alpha, str):      # ternary asserts the option away for constant scales
            out.append({"cls": "ternary", "kw": {"alpha": alpha, "threshold": None, "use_stochastic_rounding": True},
                        "shape": list(shape), "kind": kind})
        # ternary
        for alpha in (None, 1.0, 2.0, 0.5, "auto", "auto_po2"):
          ths = [None] if isinstance(alpha, str) else [None, 0.1, 0.5, 1.0]
          for th in ths:
            unr = [5] if not isinstance(alpha, str) else [5, rnd.choice([1, 2, 3])]
            for u in unr:
              kw = {"alpha": alpha, "threshold": th}
              if u != 5:
                kw["number_of_unrolls"] = u
              out.append({"cls": "ternary", "kw": kw, "shape": list(shape), "kind": kind})
        # inference path of the stochastic classes (routes to the parents)
        out.append({"cls": "stochastic_binary", "kw": {"alpha": rnd.choice([None, 1.0, "auto", "auto_po2"])},
                    "shape": list(shape), "kind": kind})
        out.append({"cls": "stochastic_ternary", "kw": {"alpha": rnd.choice([None, 1.0, "auto", "auto_po2"])},
                    "shape": list(shape), "kind": kind})
  # rank-1 with explicit grouping: observation only
  out.append({"cls": "binary", "kw": {"alpha": "auto", "scale_axis": 0, "elements_per_scale": 2},
              "shape": [8], "kind": "normal", "observe": "rank1_grouping"})
  rnd.shuffle(out)
  if tier == "quick":
    out = out[:6000]
  for c in out:
    if c["cls"] in ("binary", "ternary") and not c.get("observe"):
      r = rnd.random()
      if c["kw"].get("alpha") == "auto_po2" and r < 0.3:
        c["route"] = "trainable"       # alpha=None + _set_trainable_parameter(), as every Q layer does
      elif r < 0.45:
        c["route"] = "mutate"          # built with another alpha, used once, alpha re-assigned
  for i, c in enumerate(out):
    c["idx"], c["seed"] = i, seed
  from vf import live
  return live.cases(tier, "bt") + out


def make_tensor(case, rng, thres=None):
  shape = tuple(case["shape"])
  kind = case["kind"]
  mag = float(10.0 ** rng.uniform(-2, 2)) if case["idx"] % 3 else 1.0
  x = rng.normal(0, mag, size=shape)
  if kind == "zeros":
    x = np.zeros(shape)
  elif kind == "zero_channel":
    x[..., 0] = 0.0
  elif kind == "huge_one":
    x = rng.normal(0, 1e-3, size=shape)
    x.flat[int(rng.integers(0, x.size))] = 1e6 * rng.choice([-1, 1])
  elif kind == "tiny":
    x = rng.normal(0, 1e-6, size=shape)
  elif kind == "positive":
    x = np.abs(x) + 1e-3
  elif kind == "negative":
    x = -np.abs(x) - 1e-3
  elif kind == "alternating":
    x = np.abs(x) * np.where(np.indices(shape).sum(axis=0) % 2 == 0, 1.0, -1.0)
  elif kind == "on_threshold":
    t = 0.33 if thres is None else thres
    x = rng.choice([t, -t, np.nextafter(np.float32(t), np.float32(0)), 0.0, -0.0, 2 * t, t / 2, 1e-45], size=shape)
  elif kind == "uniform":
    x = rng.uniform(-mag, mag, size=shape)
  return np.asarray(x, dtype=np.float32)


def sig_of(case):
  kw = case["kw"]
  a = kw.get("alpha")
  return {"cls": case["cls"], "alpha": a if isinstance(a, str) else ("none" if a is None else "const"),
          "grouping": ("none" if kw.get("scale_axis") is None else
                       ("axis" if kw.get("elements_per_scale") is None else "axis+eps")),
          "rank": len(case["shape"])}


def run_case(case, ctx):
  if isinstance(case, dict) and case.get("part") == "live":
    from vf import live
    return live.run(case, ctx)
  from vf import qenv
  import tensorflow as tf
  cls, kw = case["cls"], dict(case["kw"])
  base = sig_of(case)
  rng = np.random.default_rng(case["seed"] * 65537 + case["idx"])
  thres_cfg = kw.get("threshold")
  x = make_tensor(case, rng, thres_cfg if thres_cfg is not None else 0.33)
  ok, q = ctx.call(base, qenv.build, {"cls": cls, "kw": kw, "route": case.get("route"),
                                      "seed": case["seed"], "idx": case["idx"]})
  if not ok:
    return
  if case.get("route"):
    ctx.count("route." + case["route"])
  if case.get("observe"):
    try:
      y = qenv.call(q, x)
      ctx.observe("out_of_statement:" + case["observe"], {"kw": kw, "scale": np.asarray(q.scale).ravel()[:8].tolist()})
    except Exception as e:  # pylint: disable=broad-except
      ctx.observe("out_of_statement:" + case["observe"] + ":raises", {"kw": kw, "err": repr(e)[:200]})
    ctx.skip("observation_only_configuration")
    return
  ok, y = ctx.call(base, qenv.call, q, x)
  if not ok:
    return
  parent = "binary" if "binary" in cls else "ternary"
  ctx.count("events." + parent)
  ctx.evals(x.size)
  alpha = kw.get("alpha")
  auto = isinstance(alpha, str)
  if auto or case["kind"] != "normal":
    ctx.nontrivial(cls, sorted(kw.items(), key=str), case["shape"], case["kind"], case["seed"], case["idx"] % 97)
  ctx.sample({"case": {k: case[k] for k in ("cls", "kw", "shape", "kind")}, "x": x.ravel()[:6].tolist(),
              "y": y.ravel()[:6].tolist(), "scale": np.asarray(qenv.as_np(q.scale), dtype=np.float64).ravel()[:6].tolist()})
  if y.shape != x.shape:
    ctx.violation(dict(base, kind="shape_changed"), "%s -> %s" % (x.shape, y.shape), None)
    return
  if not np.all(np.isfinite(y)):
    ctx.violation(dict(base, kind="non_finite_output"), "finite input, non-finite output", {"x": x.ravel()[:8].tolist()})
    return
  s_raw = qenv.as_np(q.scale)
  try:
    s = np.broadcast_to(np.asarray(s_raw, dtype=np.float64), x.shape)
  except ValueError:
    ctx.violation(dict(base, kind="scale_not_broadcastable"), "scale shape %s vs input %s" % (np.shape(s_raw), x.shape), None)
    return
  xf, yf = x.astype(np.float64), y.astype(np.float64)
  tiny = np.abs(xf) < 1.1754944e-38
  use_01 = bool(kw.get("use_01", False))
  if (s < 0).any() or not np.all(np.isfinite(s)):
    ctx.violation(dict(base, kind="negative_or_non_finite_scale"), "scale %r" % s.ravel()[:4].tolist(), {"x": x.ravel()[:8].tolist()})
    return
  tol = 4 * 2.0 ** -24 * np.maximum(np.abs(xf), np.abs(yf)) + 1e-37

  if parent == "binary":
    code = bt.binary_code(xf, use_01)
    alt = bt.binary_code(-np.abs(xf), use_01)      # the other sign, allowed for |x| < FLT_MIN
    good = (np.abs(yf - s * code) <= tol) | (tiny & (np.abs(yf - s * alt) <= tol))
    if not good.all():
      i = int(np.argmax(~good))
      ratio = yf.flat[i] / s.flat[i] if s.flat[i] else float("nan")
      allowed = (0.0, 1.0) if use_01 else (-1.0, 1.0)
      in_set = any(abs(ratio - a) < 1e-5 for a in allowed)
      ctx.violation(dict(base, kind="wrong_sign" if in_set else "code_outside_set", use_01=use_01),
                    "x=%r -> y=%r, scale=%r (y/scale=%r)" % (float(x.flat[i]), float(y.flat[i]), float(s.flat[i]), ratio),
                    {"x": float(x.flat[i]), "y": float(y.flat[i]), "scale": float(s.flat[i])})
  else:
    with np.errstate(divide="ignore", invalid="ignore"):
      k = np.where(s > 0, yf / np.where(s > 0, s, 1.0), 0.0)
    kr = np.round(k)
    bad = (np.abs(k - kr) > 1e-5) | (np.abs(kr) > 1) | ((s == 0) & (yf != 0))
    if bad.any():
      i = int(np.argmax(bad))
      ctx.violation(dict(base, kind="code_outside_set"),
                    "x=%r -> y=%r, scale=%r" % (float(x.flat[i]), float(y.flat[i]), float(s.flat[i])),
                    {"x": float(x.flat[i]), "y": float(y.flat[i]), "scale": float(s.flat[i])})
      return
    code = kr
    nz = code != 0
    wrong_sign = nz & (np.sign(code) != np.sign(xf)) & ~tiny
    if wrong_sign.any():
      i = int(np.argmax(wrong_sign))
      ctx.violation(dict(base, kind="wrong_sign"), "x=%r -> y=%r" % (float(x.flat[i]), float(y.flat[i])), None)
    # threshold rule
    if not auto:
      th = 0.33 if thres_cfg is None else float(thres_cfg)
      ax = np.abs(xf)
      near = np.abs(ax - th) <= 1e-5 * th
      must_zero = (ax < th) & ~near
      must_nonzero = (ax >= th) & ~near
      ctx.count("threshold_rule_checked")
      if (must_zero & nz).any() or (must_nonzero & ~nz & (s > 0)).any():
        i = int(np.argmax((must_zero & nz) | (must_nonzero & ~nz & (s > 0))))
        ctx.violation(dict(base, kind="threshold_rule"),
                      "x=%r, threshold=%r -> y=%r" % (float(x.flat[i]), th, float(y.flat[i])),
                      {"x": float(x.flat[i]), "threshold": th, "y": float(y.flat[i])})
    else:
      # per channel: zeros form a lower set of |x| (some threshold exists) ...
      gid = bt.group_ids(x.shape)
      ax = np.abs(xf)
      g = gid.ravel()
      ng = int(g.max()) + 1
      zmax = np.full(ng, -1.0)
      nmin = np.full(ng, np.inf)
      np.maximum.at(zmax, g[~nz.ravel()], ax.ravel()[~nz.ravel()])
      np.minimum.at(nmin, g[nz.ravel()], ax.ravel()[nz.ravel()])
      ctx.count("threshold_rule_checked")
      viol = zmax > nmin * (1 + 1e-5)
      if viol.any():
        c = int(np.argmax(viol))
        ctx.violation(dict(base, kind="threshold_rule"),
                      "group %d: |x|=%g maps to 0 while |x|=%g maps to +-scale" % (c, zmax[c], nmin[c]), None)
      # ... and it is half the previous-iteration scale (documented iteration, rank >= 2)
      if x.ndim >= 2:
        agree = False
        for bias in (0.0, 2e-4, -2e-4):
          rs, rcode, rth = bt.ternary_auto(xf, alpha, kw.get("number_of_unrolls", 5), log_bias=bias)
          near = np.abs(ax - rth) <= 1e-4 * np.maximum(rth, 1e-30)
          diff = (rcode != code) & ~near & ~tiny
          if not diff.any():
            agree = True
            break
        if agree:
          ctx.count("ternary_iteration_agrees")
        else:
          i = int(np.argmax(diff))
          ctx.violation(dict(base, kind="auto_threshold_rule"),
                        "x=%r maps to code %g; the documented iteration (threshold = scale/2 = %g) gives %g" % (
                            float(x.flat[i]), float(code.flat[i]), float(rth.flat[i]), float(rcode.flat[i])),
                        {"x": float(x.flat[i]), "n_diff": int(diff.sum())})

  # scales
  if auto:
    sa, eps = kw.get("scale_axis"), kw.get("elements_per_scale")
    if parent == "ternary":
      sa, eps = None, None
    if x.ndim == 1 and (sa is not None or eps is not None):
      ctx.skip("rank1_with_grouping")
      return
    gid = bt.group_ids(x.shape, sa, eps)
    ctx.count("groups_checked")
    g = gid.ravel()
    # constant within each group
    ng = int(g.max()) + 1
    smin = np.full(ng, np.inf)
    smax = np.full(ng, -np.inf)
    np.minimum.at(smin, g, s.ravel())
    np.maximum.at(smax, g, s.ravel())
    if (smax - smin > 1e-6 * np.maximum(smax, 1e-30)).any():
      c = int(np.argmax(smax - smin))
      ctx.violation(dict(base, kind="scale_not_constant_per_group"),
                    "group %d has scales %g..%g" % (c, smin[c], smax[c]), {"scale_shape": list(np.shape(s_raw))})
      return
    if parent == "binary":
      ref_code = bt.binary_code(xf, use_01)
      x_for_scale = xf
    else:
      ref_code = code
      x_for_scale = xf
    po2 = alpha == "auto_po2"
    lo, hi = kw.get("min_po2_exponent"), kw.get("max_po2_exponent")
    rs, _ = bt.ls_scale(x_for_scale, ref_code, gid, po2=False)
    if po2:
      ctx.count("po2_checked")
      pos = s[s > 0]
      m, e = np.frexp(pos)
      if (m != 0.5).any():
        ctx.violation(dict(base, kind="scale_not_power_of_two"), "scale %r" % pos[m != 0.5][:3].tolist(), None)
        return
      e = e - 1
      if (lo is not None and (e < lo).any()) or (hi is not None and (e > hi).any()):
        ctx.violation(dict(base, kind="scale_exponent_outside_bounds"),
                      "exponents %r outside [%r, %r]" % (sorted(set(e.tolist()))[:6], lo, hi), None)
      # nearest power of two of the least-squares optimum (either neighbour within a float band)
      with np.errstate(divide="ignore"):
        l = np.log2(rs + bt.KEPS)
      ea = np.floor(l - 3e-4 + 0.5)
      eb = np.floor(l + 3e-4 + 0.5)
      if lo is not None:
        ea, eb = np.maximum(ea, lo), np.maximum(eb, lo)
      if hi is not None:
        ea, eb = np.minimum(ea, hi), np.minimum(eb, hi)
      with np.errstate(divide="ignore"):
        es = np.where(s > 0, np.log2(np.where(s > 0, s, 1.0)), -np.inf)
      badp = (es < ea) | (es > eb)
      ctx.count("scale_checked")
      if badp.any():
        i = int(np.argmax(badp))
        ctx.violation(dict(base, kind="scale_not_rounded_least_squares_optimum"),
                      "scale 2^%g, least-squares optimum %g" % (es.flat[i], rs.flat[i]),
                      {"optimum": float(rs.flat[i]), "scale": float(s.flat[i])})
    else:
      ctx.count("scale_checked")
      err = np.abs(s - rs)
      if (err > 1e-5 * np.maximum(np.abs(rs), 1e-30) + 1e-30).any():
        i = int(np.argmax(err))
        ctx.violation(dict(base, kind="scale_not_least_squares_optimum"),
                      "scale %g, sum(x*code)/sum(code^2) = %g" % (s.flat[i], rs.flat[i]),
                      {"scale": float(s.flat[i]), "optimum": float(rs.flat[i]), "scale_shape": list(np.shape(s_raw))})
  else:
    want = 1.0 if alpha is None else float(alpha)
    if not np.allclose(s, want, rtol=1e-7, atol=0):
      ctx.violation(dict(base, kind="constant_scale_not_reported"), "scale %r, alpha %r" % (s.ravel()[:3].tolist(), alpha), None)
