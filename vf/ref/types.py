"""Exact value-lattice model of the data types qtools distinguishes (C16 / C17).

Written from the documented meaning of the types, never by calling the
repository's helpers (`get_exp`, `get_min_max_exp`, `po2_to_qbits`, ...).  All
values are `fractions.Fraction`.

  fixed   (bits, int_bits, signed)    k * 2^-f,  f = max(0, bits - signed - int_bits),
                                      k in [-2^(bits-1), 2^(bits-1)-1]  (signed, two's complement)
                                      k in [0, 2^bits - 1]              (unsigned)
                                      (`int_bits > bits - signed` is read with f = 0: the type is an
                                      integer of `bits` bits -- the reading under which the library's
                                      ternary / binary "integers" (2,2,s), (1,1,u) make sense)
  po2     (bits, signed, max_val)     +-2^e (only +2^e when unsigned); one bit is the sign of the
                                      value when signed, the remaining nsb = bits - signed bits hold a
                                      two's-complement exponent e in [-2^(nsb-1), 2^(nsb-1)-1]
                                      (Shifter / PowerOfTwo docstrings); a max value caps e at
                                      floor(log2(max_val)) (all generated max values are powers of two)
                                      zero is not a lattice point; "use the minimum number for 0" is a
                                      convention the caller may accept explicitly (zero_ok)
  ternary                             {-1, 0, +1}
  bpm                                 {-1, +1}
  b01                                 {0, 1}
  float                               everything
"""
import collections
import functools
from fractions import Fraction

T = collections.namedtuple("T", "kind bits int_bits signed max_val")

ZERO = Fraction(0)
ONE = Fraction(1)


# ------------------------------------------------------------ constructors
def fixed(bits, int_bits, signed):
  return T("fixed", int(bits), int(int_bits), 1 if signed else 0, None)


def po2(bits, signed, max_val=None):
  mv = None
  if max_val is not None:
    mv = Fraction(max_val)
    if mv <= 0:
      mv = None
  return T("po2", int(bits), int(bits), 1 if signed else 0, mv)


def ternary(bits=2, int_bits=2):
  return T("ternary", int(bits), int(int_bits), 1, None)


def bpm(bits=1, int_bits=1):
  return T("bpm", int(bits), int(int_bits), 1, None)


def b01(bits=1, int_bits=1):
  return T("b01", int(bits), int(int_bits), 0, None)


def flt(bits=32):
  return T("float", int(bits) if bits is not None else 0, -1, 1, None)


def short_kind(t):
  """fs/fu/ps/pu/t/bpm/b01/float: the kinds the property enumerates."""
  if t.kind == "fixed":
    return "fs" if t.signed else "fu"
  if t.kind == "po2":
    return "ps" if t.signed else "pu"
  return {"ternary": "t", "bpm": "bpm", "b01": "b01", "float": "float"}[t.kind]


def describe(t):
  if t.kind == "fixed":
    return "fixed(bits=%d,int=%d,%s)" % (t.bits, t.int_bits, "s" if t.signed else "u")
  if t.kind == "po2":
    return "po2(bits=%d,%s,max=%s)" % (t.bits, "s" if t.signed else "u", fmt(t.max_val))
  if t.kind == "float":
    return "float%d" % t.bits
  return "%s(bits=%d,int=%d)" % (t.kind, t.bits, t.int_bits)


# ------------------------------------------------------------ helpers
def fmt(v):
  """Compact exact text of a Fraction: plain when short, else m*2^e."""
  if v is None:
    return "None"
  v = Fraction(v)
  n, d = v.numerator, v.denominator
  if n.bit_length() + d.bit_length() <= 72:
    return str(v)
  if d & (d - 1) == 0:
    e = -(d.bit_length() - 1)
    if n:
      tz = (n & -n).bit_length() - 1
      n >>= tz
      e += tz
    if n.bit_length() <= 160:
      return "%d*2^%d" % (n, e)
  return "(%d-bit numerator)/(%d-bit denominator)" % (n.bit_length(), d.bit_length())


@functools.lru_cache(maxsize=None)
def p2(e):
  """2^e exactly."""
  return Fraction(1 << e) if e >= 0 else Fraction(1, 1 << (-e))


def log2_exact(v):
  """e if v == 2^e (v > 0) else None."""
  n, d = v.numerator, v.denominator
  if n <= 0:
    return None
  if d == 1 and n & (n - 1) == 0:
    return n.bit_length() - 1
  if n == 1 and d & (d - 1) == 0:
    return -(d.bit_length() - 1)
  return None


def floor_log2(v):
  """floor(log2(v)) for a positive Fraction, exactly."""
  n, d = v.numerator, v.denominator
  e = n.bit_length() - d.bit_length()
  # 2^e <= v < 2^(e+1) up to one: correct it
  while p2(e) > v:
    e -= 1
  while p2(e + 1) <= v:
    e += 1
  return e


def frac_bits(t):
  assert t.kind == "fixed"
  return max(0, t.bits - t.signed - t.int_bits)


def code_range(t):
  assert t.kind == "fixed"
  if t.signed:
    return -(1 << (t.bits - 1)), (1 << (t.bits - 1)) - 1
  return 0, (1 << t.bits) - 1


def exp_range(t):
  """(emin, emax) of a po2 type; emax < emin means the type holds nothing."""
  assert t.kind == "po2"
  nsb = t.bits - t.signed
  if nsb < 1:
    return 0, -1
  emin = -(1 << (nsb - 1))
  emax = (1 << (nsb - 1)) - 1
  if t.max_val is not None:
    emax = min(emax, floor_log2(t.max_val))
  return emin, emax


def is_empty(t):
  if t.kind == "po2":
    lo, hi = exp_range(t)
    return hi < lo
  if t.kind == "fixed":
    return t.bits < 1
  return False


def lsb(t):
  """Granularity: every value of the type is an integer multiple of it."""
  if t.kind == "fixed":
    return p2(-frac_bits(t))
  if t.kind == "po2":
    return p2(exp_range(t)[0])
  if t.kind == "float":
    return None
  return ONE


def vmin(t):
  if t.kind == "fixed":
    return code_range(t)[0] * lsb(t)
  if t.kind == "po2":
    lo, hi = exp_range(t)
    return -p2(hi) if t.signed else p2(lo)
  if t.kind in ("ternary", "bpm"):
    return -ONE
  if t.kind == "b01":
    return ZERO
  return None


def vmax(t):
  if t.kind == "fixed":
    return code_range(t)[1] * lsb(t)
  if t.kind == "po2":
    return p2(exp_range(t)[1])
  if t.kind in ("ternary", "bpm", "b01"):
    return ONE
  return None


def max_abs(t):
  a, b = vmin(t), vmax(t)
  if a is None:
    return None
  return max(abs(a), abs(b))


def size(t):
  """Number of values (None for float)."""
  if t.kind == "fixed":
    return 1 << t.bits
  if t.kind == "po2":
    lo, hi = exp_range(t)
    return max(0, hi - lo + 1) * (2 if t.signed else 1)
  return {"ternary": 3, "bpm": 2, "b01": 2, "float": None}[t.kind]


def storage_bits(t):
  return {"ternary": 2, "bpm": 1, "b01": 1}.get(t.kind, t.bits)


def has_zero(t):
  return t.kind in ("fixed", "ternary", "b01", "float")


def has_negative(t):
  if t.kind == "float":
    return True
  m = vmin(t)
  return m is not None and m < 0


# ------------------------------------------------------------ value sets
def enumerate_values(t):
  """All values, ascending (finite types only)."""
  if t.kind == "fixed":
    lo, hi = code_range(t)
    s = lsb(t)
    return [k * s for k in range(lo, hi + 1)]
  if t.kind == "po2":
    lo, hi = exp_range(t)
    pos = [p2(e) for e in range(lo, hi + 1)]
    return ([-v for v in reversed(pos)] if t.signed else []) + pos
  if t.kind == "ternary":
    return [-ONE, ZERO, ONE]
  if t.kind == "bpm":
    return [-ONE, ONE]
  if t.kind == "b01":
    return [ZERO, ONE]
  raise ValueError("float cannot be enumerated")


def extremes(t):
  """min, max, smallest positive, smallest-magnitude negative, 0 if
  representable, and the neighbours (1 LSB / one exponent) of the two ends."""
  if t.kind == "float":
    return []
  if t.kind == "fixed":
    lo, hi = code_range(t)
    s = lsb(t)
    ks = {lo, hi, 0, lo + 1, hi - 1}
    if hi >= 1:
      ks.add(1)
    if lo <= -1:
      ks.add(-1)
    return sorted(k * s for k in ks if lo <= k <= hi)
  if t.kind == "po2":
    lo, hi = exp_range(t)
    if hi < lo:
      return []
    es = sorted({e for e in (lo, lo + 1, hi - 1, hi) if lo <= e <= hi})
    pos = [p2(e) for e in es]
    return ([-v for v in reversed(pos)] if t.signed else []) + pos
  return enumerate_values(t)


def smallest_positive(t):
  if t.kind == "float":
    return None
  if t.kind == "fixed":
    return lsb(t) if code_range(t)[1] >= 1 else None
  if t.kind == "po2":
    return p2(exp_range(t)[0])
  return ONE


def smallest_negative(t):
  """Negative value of smallest magnitude (None if the type has none)."""
  if t.kind == "fixed":
    return -lsb(t) if t.signed else None
  if t.kind == "po2":
    return -p2(exp_range(t)[0]) if t.signed else None
  if t.kind in ("ternary", "bpm"):
    return -ONE
  return None


# ------------------------------------------------------------ membership
def why_not(t, v, zero_ok=False):
  """None when v is a value of t, otherwise the reason (a mechanism word:
  above_max / below_min / off_grid / exp_above_max / exp_below_min / not_po2 /
  negative_in_unsigned / zero / not_in_set)."""
  if t.kind == "float":
    return None
  if t.kind == "fixed":
    f = frac_bits(t)
    lo, hi = code_range(t)
    k = v * (1 << f)
    if k > hi:
      return "above_max"
    if k < lo:
      return "below_min"
    if k.denominator != 1:
      return "off_grid"
    return None
  if t.kind == "po2":
    if v == 0:
      return None if zero_ok else "zero"
    if v < 0 and not t.signed:
      return "negative_in_unsigned"
    e = log2_exact(abs(v))
    if e is None:
      return "not_po2"
    lo, hi = exp_range(t)
    if e > hi:
      return "exp_above_max"
    if e < lo:
      return "exp_below_min"
    return None
  vals = enumerate_values(t)
  if v in vals:
    return None
  if v > vals[-1]:
    return "above_max"
  if v < vals[0]:
    return "below_min"
  return "zero" if v == 0 else "not_in_set"


def contains(t, v, zero_ok=False):
  return why_not(t, Fraction(v), zero_ok=zero_ok) is None


def shortfall_bits(t, v):
  """How many more integer (fixed) / exponent (po2) bits `t` would need to
  reach v: 1 for the classic one-bit shortfall.  None when not a range issue."""
  if t.kind == "fixed":
    f = frac_bits(t)
    k = v * (1 << f)
    lo, hi = code_range(t)
    n = 0
    while (k > hi or k < lo) and n < 64:
      n += 1
      if t.signed:
        lo, hi = lo * 2, hi * 2 + 1
      else:
        hi = hi * 2 + 1
    return n or None
  if t.kind == "po2":
    e = log2_exact(abs(v)) if v != 0 else None
    if e is None:
      return None
    nsb = t.bits - t.signed
    n = 0
    while n < 64:
      lo, hi = -(1 << (nsb + n - 1)), (1 << (nsb + n - 1)) - 1
      if lo <= e <= hi:
        break
      n += 1
    return n or None
  return None


# ------------------------------------------------------------ observed objects
_TERNARY = ("Ternary", "StochasticTernary")
_BINARY = ("Binary", "StochasticBinary", "Bernoulli")


def _num(v, default=-1):
  """Plain python number out of python / numpy / tf scalars."""
  if v is None:
    return default
  if type(v) in (int, float, bool, str):
    return v
  if hasattr(v, "numpy"):
    v = v.numpy()
  if hasattr(v, "reshape") and hasattr(v, "shape") and getattr(v, "shape", ()) != ():
    v = v.reshape(-1)[0]
  if hasattr(v, "item"):
    v = v.item()
  return v


def from_reported(q):
  """Type descriptor of a qtools quantizer object as it reports itself (class,
  is_floating_point, is_po2, use_01, bits, int_bits, is_signed, max_val_po2).
  Only attributes are read; no repository function is called."""
  cls = type(q).__name__
  bits = _num(getattr(q, "bits", -1))
  int_bits = _num(getattr(q, "int_bits", -1))
  signed = 1 if _num(getattr(q, "is_signed", 0), 0) else 0
  if getattr(q, "is_floating_point", False):
    return flt(bits if isinstance(bits, int) else 0)
  if getattr(q, "is_po2", 0):
    mv = _num(getattr(q, "max_val_po2", -1))
    if mv is None or mv == -1 or mv <= 0:
      mv = None
    return po2(bits, signed, mv)
  if cls in _TERNARY:
    return ternary(bits, int_bits)
  if cls in _BINARY:
    return b01(bits, int_bits) if getattr(q, "use_01", False) else bpm(bits, int_bits)
  if cls == "QuantizedRelu" and bits == 1 and int_bits == 1 and not signed:
    # qtools documents quantized_relu(1,1) as the binary 0/1 type (same lattice {0,1})
    return b01(bits, int_bits)
  return fixed(bits, int_bits, signed)


def fields(q):
  """JSON-able dump of what a qtools quantizer object reports."""
  out = {"class": type(q).__name__}
  for k in ("name", "mode", "bits", "int_bits", "is_signed", "is_floating_point", "is_po2", "max_val_po2", "use_01"):
    if hasattr(q, k):
      v = _num(getattr(q, k), None)
      out[k] = v if isinstance(v, (int, float, str, bool, type(None))) else str(v)
  return out
