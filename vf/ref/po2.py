"""Reference model of the power-of-two quantizers (from the class docstrings)."""
import math

import numpy as np

EPS = 1e-7           # keras epsilon: magnitudes below it map to the smallest code
BAND = 3e-5          # |log2 x - breakpoint| inside which either neighbour is accepted


def exponent_interval(cls, bits, max_value):
  """(min_exp, max_exp) recomputed from (bits, max_value).

  quantized_po2: one bit is the sign of the value; quantized_relu_po2: none.
  One more bit is the sign of the exponent when max_value is unset or > 1.
  The remaining n bits hold the exponent magnitude: [-2^n, 2^n - 1].
  """
  need_sign = 1 if (max_value is None or max_value > 1) else 0
  n = bits - need_sign - (1 if cls == "quantized_po2" else 0)
  return -(2 ** n), 2 ** n - 1


def expected_exponent(x_abs, min_exp, max_exp, max_value, mode):
  """Returns (lo_ok, hi_ok): the admissible exponent interval per element.

  x_abs float64 >= EPS-ish.  Outside the float band the interval is a single
  exponent."""
  v = np.asarray(x_abs, dtype=np.float64)
  if max_value is not None:
    v = np.minimum(v, float(max_value))
  with np.errstate(divide="ignore"):
    l = np.log2(v)
  # the library's float32 quotient log(x)/log(2) is off by a few ulps of |log2 x|: inside that band either
  # neighbour is accepted.  (A constant band of 3e-5 was 10x wider than needed for small exponents and hid a
  # +1e-5 shift of the floor breakpoints, seeded change C03-G.)
  band = np.minimum(BAND, 6e-7 * (np.abs(l) + 1.0))
  if mode == "floor":
    a = np.floor(l - band)
    b = np.floor(l + band)
  else:
    a = np.floor(l - band + 0.5)
    b = np.floor(l + band + 0.5)
    # exact half-way in log space (never hit by float inputs) -> both anyway
  a = np.clip(a, min_exp, max_exp)
  b = np.clip(b, min_exp, max_exp)
  return a, b


def probes(min_exp, max_exp, max_value, rng, n_random=256):
  lo = max(min_exp - 3, -40)
  hi = min(max_exp + 3, 40)
  es = np.arange(lo, hi + 1, dtype=np.float64)
  base = np.concatenate([2.0 ** es, math.sqrt(2.0) * 2.0 ** es, 1.2 * 2.0 ** es, 1.7 * 2.0 ** es,
                         math.sqrt(2.0) * 2.0 ** es * (1 + 2e-4), math.sqrt(2.0) * 2.0 ** es * (1 - 2e-4),
                         2.0 ** es * (1 + 2e-4), 2.0 ** es * (1 - 2e-4),
                         # between the float band and the coarse offsets: a few tens of ulps off a breakpoint
                         2.0 ** es * (1 + 5e-6), 2.0 ** es * (1 - 5e-6), 2.0 ** es * (1 - 2e-5),
                         math.sqrt(2.0) * 2.0 ** es * (1 + 5e-6), math.sqrt(2.0) * 2.0 ** es * (1 - 5e-6)])
  b32 = base.astype(np.float32)
  pts = [b32]
  u, d = b32, b32
  for _ in range(3):
    u = np.nextafter(u, np.float32(np.inf))
    d = np.nextafter(d, np.float32(0))
    pts += [u, d]
  eps_pts = np.array([1e-8, 5e-8, 9e-8, 9.9999e-8, 1e-7, 1.00001e-7, 1.1e-7, 1.2e-7, 2e-7,
                      0.0, 1e-45, 1e-39, 1.1754944e-38, 1e-30, 1e-20, 1e-12], dtype=np.float32)
  pts.append(eps_pts)
  if max_value is not None:
    mv = np.float32(max_value)
    pts.append(np.array([mv, np.nextafter(mv, np.float32(0)), np.nextafter(mv, np.float32(np.inf)),
                         mv * np.float32(1.5), mv * np.float32(3.0), mv * np.float32(0.75)], dtype=np.float32))
  pts.append((10.0 ** rng.uniform(-15, 15, size=n_random)).astype(np.float32))
  x = np.unique(np.concatenate(pts))
  # float32 absorption bound of x + (-x + xq)
  x = x[x < domain_bound(max_exp, max_value)]
  return x


def domain_bound(max_exp, max_value):
  """float32 absorption bound of x + (-x + xq): 2^22 times the largest output."""
  top = 2.0 ** min(max_exp, 60)
  if max_value is not None:
    top = min(top, float(max_value))
  return top * 2.0 ** 22
