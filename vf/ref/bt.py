"""Reference model for binary / ternary quantizers and least-squares scales.

Groups are derived by plain index arithmetic from (shape, scale_axis,
elements_per_scale, data format) -- not by calling the library's reshape
helpers.
"""
import numpy as np

KEPS = 1e-7  # keras epsilon (the library adds it to the denominator / inside log)


def group_ids(shape, scale_axis=None, elements_per_scale=None, channels_last=True):
  """Integer group id per element: elements sharing an id share one scale."""
  rank = len(shape)
  if rank == 1 and scale_axis is None:
    return np.arange(shape[0])           # every entry is its own channel
  if scale_axis is None:
    axes = [rank - 1] if channels_last else [0]
  elif isinstance(scale_axis, (list, tuple)):
    axes = list(scale_axis)
  else:
    axes = [scale_axis]
  if elements_per_scale is None:
    eps = [1] * len(axes)
  elif isinstance(elements_per_scale, (list, tuple)):
    eps = list(elements_per_scale)
  else:
    eps = [elements_per_scale] * len(axes)
  idx = np.indices(shape)
  gid = np.zeros(shape, dtype=np.int64)
  for a, e in zip(axes, eps):
    n = shape[a] // e
    gid = gid * n + idx[a] // e
  return gid


def ls_scale(x, code, gid, po2=False, min_exp=None, max_exp=None, log_bias=0.0):
  """sum(x*code)/(sum(code^2) + n*eps) per group, broadcast to x's shape."""
  x = np.asarray(x, dtype=np.float64)
  code = np.asarray(code, dtype=np.float64)
  g = gid.ravel()
  ng = int(g.max()) + 1
  sx = np.bincount(g, weights=(x * code).ravel(), minlength=ng)
  sq = np.bincount(g, weights=(code * code).ravel(), minlength=ng)
  n = np.bincount(g, minlength=ng)
  s = sx / (sq + n * KEPS)
  if po2:
    s = 2.0 ** np.round(np.log2(np.maximum(s + KEPS, 1e-300)) + log_bias)
    if min_exp is not None:
      s = np.maximum(s, 2.0 ** min_exp)
    if max_exp is not None:
      s = np.minimum(s, 2.0 ** max_exp)
  return s[g].reshape(x.shape), s


def binary_code(x, use_01=False):
  k = np.where(np.asarray(x, dtype=np.float64) < 0, -1.0, 1.0)
  if use_01:
    k = (k + 1.0) / 2.0
  return k


def ternary_auto(x, alpha, unrolls=5, channels_last=True, log_bias=0.0):
  """The documented scale/threshold iteration in float64.

  Returns (final scale per element, code, threshold used for the final code)."""
  x = np.asarray(x, dtype=np.float64)
  rank = x.ndim
  if rank == 1:
    m = np.full(x.shape, np.max(np.abs(x)))
    gid = np.arange(x.shape[0])
  else:
    gid = group_ids(x.shape, None, None, channels_last)
    g = gid.ravel()
    ng = int(g.max()) + 1
    mg = np.zeros(ng)
    np.maximum.at(mg, g, np.abs(x).ravel())
    m = mg[g].reshape(x.shape)
  po2 = alpha == "auto_po2"
  scale = 2.0 * m / 3.0
  if po2:
    scale = 2.0 ** np.round(np.log2(scale + KEPS) + log_bias)
  thres = scale / 2.0
  code = np.zeros_like(x)
  for _ in range(unrolls):
    thres = scale / 2.0
    with np.errstate(divide="ignore", invalid="ignore"):
      v = scale * np.round(x / scale)       # round half to even, like tf.round
    v = np.where(np.isfinite(v), v, 0.0)
    code = (np.abs(v) >= thres) * np.sign(x)
    code = np.where(scale == 0, 0.0, code)   # x/0 -> nan/inf: every comparison is False
    scale, _ = ls_scale(x, code, gid, po2=po2, log_bias=log_bias)
  return scale, code, thres
