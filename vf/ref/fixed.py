"""Independent reference model of the fixed-point quantizer formats.

Written from the class docstrings / the property statements, not from the
implementation: a format is a lattice  alpha * (offset + step * k), k in
[lo, hi]  plus a surrogate activation s(x).  Everything is dyadic, so float64
arithmetic on float32 inputs is exact (asserted by `exact_div`).
"""
import math

import numpy as np

FLT_MIN = np.float32(1.1754944e-38)


class Format(object):
  __slots__ = ("cls", "step", "offset", "lo", "hi", "alpha", "in_scale",
               "surrogate", "neg_slope", "neg_lo", "slack", "supported",
               "note", "sign_format", "bits")

  def __repr__(self):
    return "Format(%s step=%g off=%g lo=%d hi=%d alpha=%g)" % (
        self.cls, self.step, self.offset, self.lo, self.hi, self.alpha)

  def codes(self):
    return np.arange(self.lo, self.hi + 1, dtype=np.float64)

  def values(self):
    return self.alpha * (self.offset + self.step * self.codes())


def _alpha_value(alpha):
  if alpha is None:
    return 1.0
  return float(alpha)


def make(cfg):
  """cfg = {"cls": name, "kw": constructor kwargs, "sigmoid": "hard|smooth|real"}."""
  cls, kw = cfg["cls"], cfg["kw"]
  f = Format()
  f.cls = cls
  f.offset = 0.0
  f.alpha = 1.0
  f.in_scale = 1.0      # the input is divided by this before projecting
  f.neg_slope = 0.0
  f.neg_lo = 0
  f.slack = 0.0
  f.supported = True
  f.note = ""
  f.sign_format = False
  f.bits = int(kw.get("bits", 8))
  sig = cfg.get("sigmoid", "hard")
  if cls in ("quantized_bits", "quantized_linear"):
    bits = f.bits
    integer = int(kw.get("integer", 0))
    keep = 1 if kw.get("keep_negative", True) else 0
    sym = 1 if kw.get("symmetric", 1 if cls == "quantized_linear" else 0) else 0
    alpha = _alpha_value(kw.get("alpha"))
    f.alpha = alpha
    ub = bits - keep
    f.surrogate = "identity"
    if ub == 0:
      # one signed bit: a scaled sign function
      f.sign_format = True
      f.lo, f.hi = 0, 1
      if cls == "quantized_bits":
        f.step, f.offset = 2.0, -1.0          # {-1, +1}, integer bits ignored
      else:
        qs = 2.0 ** integer                   # {-qs/2, +qs/2}
        f.step, f.offset = qs, -qs / 2.0
        f.slack = 2.0 ** -24
    else:
      f.step = 2.0 ** (integer - ub)
      f.lo = keep * (-(2 ** ub) + sym)
      f.hi = 2 ** ub - 1
    if cls == "quantized_linear":
      f.in_scale = alpha                      # divides the input by the scale
  elif cls == "quantized_relu":
    bits = f.bits
    integer = int(kw.get("integer", 0))
    slope = float(kw.get("negative_slope", 0.0))
    nsb = bits - (1 if slope != 0.0 else 0)
    f.step = 2.0 ** (integer - nsb)
    m = 2 ** nsb
    f.hi = m - 1
    f.lo = 0
    f.surrogate = "relu"
    f.neg_slope = slope
    if slope != 0.0:
      nl = slope * m
      if nl < 1 or nl != int(nl):
        f.supported = False
        f.note = "negative_slope*2^(bits-1) < 1: docstring calls this user error"
        nl = math.floor(nl)
      f.lo = -int(nl)
    ubd = kw.get("relu_upper_bound")
    if ubd is not None and not kw.get("is_quantized_clip", True) and ubd:
      k = ubd / f.step
      if k != int(k):
        f.supported = False
        f.note = "relu_upper_bound is not a code"
      f.hi = min(f.hi, int(math.floor(k)))
    if kw.get("use_sigmoid", 0):
      f.supported = False
      f.note = "use_sigmoid variant is not one of the five named variants"
    if nsb <= 0:
      f.supported = False
      f.note = "no magnitude bits"
  elif cls == "quantized_tanh":
    bits = f.bits
    m = 2 ** (bits - 1)
    sym = 1 if kw.get("symmetric", False) else 0
    f.step = 1.0 / m
    f.lo, f.hi = -m + sym, m - 1
    f.surrogate = "tanh_real" if kw.get("use_real_tanh", False) else "tanh_" + sig
    f.slack = 8 * 2.0 ** -24 * m
  elif cls == "quantized_sigmoid":
    bits = f.bits
    m = 2 ** bits
    sym = 1 if kw.get("symmetric", False) else 0
    f.step = 1.0 / m
    f.lo, f.hi = sym, m - 1
    f.surrogate = "sigmoid_real" if kw.get("use_real_sigmoid", False) else "sigmoid_" + sig
    f.slack = 8 * 2.0 ** -24 * m
  else:
    raise ValueError(cls)
  return f


def surrogate(f, x):
  """s(x) in float64 for a float32 array x."""
  x = np.asarray(x, dtype=np.float64)
  s = f.surrogate
  if s == "identity":
    return x / f.in_scale
  if s == "relu":
    return np.where(x >= 0, x, f.neg_slope * x)
  if s == "tanh_hard":
    return np.clip(x, -1.0, 1.0)
  if s == "tanh_smooth":
    return 2.0 * np.clip(0.1875 * x + 0.5, 0.0, 1.0) - 1.0
  if s == "tanh_real":
    return np.tanh(x)
  if s == "sigmoid_hard":
    return np.clip(0.5 * x + 0.5, 0.0, 1.0)
  if s == "sigmoid_smooth":
    return np.clip(0.1875 * x + 0.5, 0.0, 1.0)
  if s == "sigmoid_real":
    with np.errstate(over="ignore"):
      return 1.0 / (1.0 + np.exp(-x))
  raise ValueError(s)


def surrogate_inverse(f, p):
  """x (float64) with s(x) = p, for probe construction (p strictly inside)."""
  s = f.surrogate
  p = np.asarray(p, dtype=np.float64)
  with np.errstate(all="ignore"):
    if s == "identity":
      return p * f.in_scale
    if s == "relu":
      return np.where(p >= 0, p, p / f.neg_slope if f.neg_slope else p)
    if s == "tanh_hard":
      return p
    if s == "tanh_smooth":
      return ((p + 1.0) / 2.0 - 0.5) / 0.1875
    if s == "tanh_real":
      return np.arctanh(np.clip(p, -1 + 1e-12, 1 - 1e-12))
    if s == "sigmoid_hard":
      return 2.0 * p - 1.0
    if s == "sigmoid_smooth":
      return (p - 0.5) / 0.1875
    if s == "sigmoid_real":
      q = np.clip(p, 1e-12, 1 - 1e-12)
      return np.log(q / (1 - q))
  raise ValueError(s)


def exact_code(f, x):
  """e = clip((s(x) - offset)/step, lo, hi) in float64 (exact for dyadic data)."""
  e = (surrogate(f, x) - f.offset) / f.step
  if f.surrogate == "relu" and f.neg_slope:
    pass
  return np.clip(e, f.lo, f.hi)


def output_code(f, y):
  """k with y = alpha*(offset + step*k); float64, exact for dyadic alpha."""
  return (np.asarray(y, dtype=np.float64) / f.alpha - f.offset) / f.step


def lsb(v):
  """Largest power of two dividing the dyadic number v (v != 0)."""
  v = abs(float(v))
  g = 1.0
  while v != math.floor(v):
    v *= 2.0
    g /= 2.0
  while v and v % 2 == 0:
    v /= 2.0
    g *= 2.0
  return g


def grain(f):
  """Granularity of the output lattice alpha*(offset + step*k)."""
  if not is_dyadic(f.alpha):
    return f.step * abs(f.alpha) * 2.0 ** -4
  g = lsb(f.alpha * f.step)
  if f.offset:
    g = min(g, lsb(f.alpha * f.offset))
  return g


def code_tolerance(f, x, y, k):
  """Tolerance (in code units) for `y/(alpha*step)` being an integer: 0 for dyadic scales; for a
  non-dyadic constant alpha the product alpha*code and the sum x + (-x + xq) are rounded in float32."""
  if is_dyadic(f.alpha):
    return 0.0
  mag = np.maximum(np.abs(np.asarray(x, dtype=np.float64)), np.abs(np.asarray(y, dtype=np.float64))).astype(np.float32)
  ulp = np.spacing(np.maximum(mag, np.float32(1e-30))).astype(np.float64)
  return 4.0 * ulp / (abs(f.alpha) * f.step) + 4e-7 * np.maximum(1.0, np.abs(k))


def is_dyadic(v):
  if v == 0:
    return True
  m, _ = math.frexp(v)
  return (m * 2 ** 30) == int(m * 2 ** 30)


def domain_bound(f):
  return grain(f) * 2.0 ** 22


def probes(f, extra_codes=3, max_codes=4096, rng=None):
  """Boundary inputs for a format (float32, sorted ascending, finite)."""
  lo, hi = f.lo - extra_codes, f.hi + extra_codes
  n = hi - lo + 1
  if n > max_codes:
    # both ends densely, the middle sampled
    edge = max_codes // 4
    mid = rng.choice(np.arange(lo + edge, hi - edge), size=max_codes // 2, replace=False) \
        if rng is not None else np.linspace(lo + edge, hi - edge, max_codes // 2).astype(np.int64)
    ks = np.unique(np.concatenate([np.arange(lo, lo + edge), mid, np.arange(hi - edge, hi + 1),
                                   np.arange(-4, 5)]))
  else:
    ks = np.arange(lo, hi + 1)
  ks = ks.astype(np.float64)
  targets = np.concatenate([ks, ks + 0.5])            # codes and breakpoints
  p = f.offset + f.step * targets                      # value of the surrogate
  xs = surrogate_inverse(f, p)
  xs = xs[np.isfinite(xs)]
  x32 = xs.astype(np.float32)
  up = np.nextafter(x32, np.float32(np.inf))
  dn = np.nextafter(x32, np.float32(-np.inf))
  up2 = np.nextafter(up, np.float32(np.inf))
  dn2 = np.nextafter(dn, np.float32(-np.inf))
  span = f.step * f.in_scale
  # |x| < 2^22 grains keeps `x + (-x + xq)` exact in float32 (the statement's
  # "below 2^24 quantization steps", tightened for scales with more than one
  # significant bit)
  big = grain(f)
  special = np.array([0.0, -0.0, 1e-45, -1e-45, 1e-39, -1e-39, FLT_MIN, -FLT_MIN,
                      big * 2.0 ** 18, -big * 2.0 ** 18, big * 2.0 ** 21.5, -big * 2.0 ** 21.5,
                      span * 0.25, -span * 0.25, span * 0.499999, span * 0.500001],
                     dtype=np.float64).astype(np.float32)
  allx = np.concatenate([x32, up, dn, up2, dn2, special])
  allx = allx[np.isfinite(allx)]
  # the statement's domain: magnitude below 2^24 steps (2^20 when alpha is not
  # a power of two, so that alpha*code stays exactly representable)
  bound = big * (2.0 ** 22)
  allx = allx[np.abs(allx.astype(np.float64)) < bound]
  return np.unique(allx)  # sorted
