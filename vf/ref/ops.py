"""Brute-force loop-nest operation counters (C19 reference).

Written from the Keras layer definitions (what the layer computes for ONE input sample),
not from `compute_output_shape` and not from the formulas in qkeras/qtools or qkeras/estimate.py.
Pure Python, no TensorFlow import.

Conventions
-----------
* A convolution / pooling axis is described by (n, k, s, d, padding): input length, kernel
  taps, stride, dilation and one of "valid" / "same" / "causal".
* TF/Keras definitions used:
    valid : no padding; an output position exists for every o >= 0 whose window
            [o*s, o*s + (k-1)*d] fits inside the input;
    same  : one output position per stride step that starts inside the input (o*s < n); the
            input is zero-padded by `total = max((n_out-1)*s + (k-1)*d + 1 - n, 0)`,
            floor(total/2) before and the rest after;
    causal: (Conv1D) (k-1)*d zeros before, nothing after, then "valid".
* `mac`      counts one multiply-accumulate per (output position, kernel tap, connected channel
  pair) with the kernel applied to the zero-PADDED input (what a dense loop nest / a MAC array
  executes); `mac_real` counts only the taps that land on real input elements.  Both are
  produced by explicit loops; `mac` is what C19 compares with.
"""
import itertools

FULL_NEST_LIMIT = 40000


class RefError(Exception):
  """The reference refuses the case (never a verdict about the repository)."""


def axis_windows(n, k, s, d, padding):
  """Window start (input coordinates, may be negative) of every output position."""
  if min(n, k, s, d) < 1:
    raise RefError("bad axis %r" % ((n, k, s, d, padding),))
  span = (k - 1) * d + 1
  if padding == "valid":
    before = after = 0
    starts = []
    o = 0
    while o * s + span <= n:
      starts.append(o * s)
      o += 1
  elif padding == "same":
    n_out = 0
    while n_out * s < n:
      n_out += 1
    total = max((n_out - 1) * s + span - n, 0)
    before = total // 2
    after = total - before
    starts = [o * s - before for o in range(n_out)]
  elif padding == "causal":
    before, after = (k - 1) * d, 0
    starts = []
    o = 0
    while o * s - before + span <= n:
      starts.append(o * s - before)
      o += 1
  else:
    raise RefError("padding %r" % (padding,))
  return starts, before, after


def axis_taps(n, k, s, d, padding):
  """Per output position: (taps executed on the padded input, taps on real elements)."""
  starts, before, after = axis_windows(n, k, s, d, padding)
  out = []
  for st in starts:
    dense = real = 0
    for t in range(k):
      idx = st + t * d
      if idx < -before or idx >= n + after:
        raise RefError("tap outside the padded input: %r" % ((n, k, s, d, padding, st, t),))
      dense += 1
      if 0 <= idx < n:
        real += 1
    out.append((dense, real))
  return out


def _spatial_nest(per_axis):
  """Explicit nest over output positions and kernel taps of every spatial axis."""
  dense = real = positions = 0
  for combo in itertools.product(*per_axis):
    positions += 1
    # taps of this output position: nest over the tap indices of each axis
    dn = [c[0] for c in combo]
    rl = [c[1] for c in combo]
    for _ in itertools.product(*[range(x) for x in dn]):
      dense += 1
    r = 1
    for x in rl:
      r *= x
    real += r
  return positions, dense, real


def _real_nest(spatial, kernel, strides, dilation, padding):
  """Independent count of real taps: walks tap coordinates and tests them against the input."""
  axes = [axis_windows(n, k, s, d, padding) for n, k, s, d in zip(spatial, kernel, strides, dilation)]
  real = 0
  for pos in itertools.product(*[a[0] for a in axes]):
    for tap in itertools.product(*[range(k) for k in kernel]):
      ok = True
      for ax, st in enumerate(pos):
        idx = st + tap[ax] * dilation[ax]
        if idx < 0 or idx >= spatial[ax]:
          ok = False
      if ok:
        real += 1
  return real


def conv(spatial, cin, cout, kernel, strides, dilation, padding, groups=1):
  """Conv1D / Conv2D (any number of spatial axes)."""
  nd = len(spatial)
  if not (len(kernel) == len(strides) == len(dilation) == nd):
    raise RefError("rank mismatch")
  if cin % groups or cout % groups:
    raise RefError("channels not divisible by groups")
  per_axis = [axis_taps(n, k, s, d, padding) for n, k, s, d in zip(spatial, kernel, strides, dilation)]
  if any(len(a) == 0 for a in per_axis):
    raise RefError("empty output")
  positions, dense, real = _spatial_nest(per_axis)
  if real != _real_nest(spatial, kernel, strides, dilation, padding):
    raise RefError("two real-tap counters disagree")
  # channel connections: output channel co of group g reads the input channels of group g
  connections = 0
  gi, go = cin // groups, cout // groups
  for g in range(groups):
    for co in range(g * go, (g + 1) * go):
      for ci in range(g * gi, (g + 1) * gi):
        connections += 1
  mac = dense * connections
  if mac <= FULL_NEST_LIMIT:
    full = 0
    for combo in itertools.product(*per_axis):
      taps = 1
      for c in combo:
        taps *= c[0]
      for co in range(cout):
        g = co // go
        for _t in range(taps):
          for ci in range(g * gi, (g + 1) * gi):
            full += 1
    if full != mac:
      raise RefError("full nest %d != factorised %d" % (full, mac))
  return {"mac": mac, "mac_real": real * connections, "positions": positions,
          "out_spatial": [len(a) for a in per_axis], "out_channels": cout,
          "taps": dense // positions, "connections": connections, "groups": groups}


def depthwise(spatial, cin, depth_multiplier, kernel, strides, dilation, padding):
  """DepthwiseConv2D: every input channel is filtered by `depth_multiplier` own kernels."""
  per_axis = [axis_taps(n, k, s, d, padding) for n, k, s, d in zip(spatial, kernel, strides, dilation)]
  if any(len(a) == 0 for a in per_axis):
    raise RefError("empty output")
  positions, dense, real = _spatial_nest(per_axis)
  connections = 0
  for _c in range(cin):
    for _m in range(depth_multiplier):
      connections += 1
  return {"mac": dense * connections, "mac_real": real * connections, "positions": positions,
          "out_spatial": [len(a) for a in per_axis], "out_channels": cin * depth_multiplier,
          "taps": dense // positions, "connections": connections,
          "depth_multiplier": depth_multiplier}


def dense(features, units):
  mac = 0
  for _u in range(units):
    for _f in range(features):
      mac += 1
  return {"mac": mac, "mac_real": mac, "positions": 1, "out_channels": units}


def avg_pool(spatial, channels, pool, strides, padding):
  """Average pooling: one accumulation per (channel, output position, window element)."""
  ones = [1] * len(spatial)
  per_axis = [axis_taps(n, k, s, d, padding) for n, k, s, d in zip(spatial, pool, strides, ones)]
  if any(len(a) == 0 for a in per_axis):
    raise RefError("empty output")
  positions, dense_t, real_t = _spatial_nest(per_axis)
  adds = adds_real = 0
  for _c in range(channels):
    adds += dense_t
    adds_real += real_t
  area = 1
  for p in pool:
    area *= p
  return {"mac": adds, "mac_real": adds_real, "positions": positions, "area": area,
          "out_spatial": [len(a) for a in per_axis], "out_channels": channels}


def global_avg_pool(spatial, channels):
  adds = 0
  for _c in range(channels):
    for _ in itertools.product(*[range(n) for n in spatial]):
      adds += 1
  return {"mac": adds, "mac_real": adds, "positions": 1, "out_spatial": [], "out_channels": channels}


def max_pool_shape(spatial, pool, strides, padding):
  ones = [1] * len(spatial)
  return [len(axis_taps(n, k, s, d, padding)) for n, k, s, d in zip(spatial, pool, strides, ones)]


def elementwise(shape):
  """Element-wise merge of two tensors of this (per-sample) shape: one operation per element."""
  ops = 0
  for _ in itertools.product(*[range(n) for n in shape]):
    ops += 1
  return {"mac": ops, "mac_real": ops, "positions": 1}


def numel(shape):
  n = 1
  for s in shape:
    n *= int(s)
  return n
