"""Independent re-evaluation of the documented qtools energy model (C19 reference).

Sources: the "horowitz" process table in qkeras/qtools/config_public.py (coefficients of
polynomials in the operand width / log2 of the memory size, highest power first, pJ), the
constant `sram_mul_factor = 1/64` (one SRAM access moves 64 bits), and the rules written in the
comments / docstrings of qkeras/qtools/qenergy/qenergy.py:

  read of a tensor (activations or parameters), `bits = elements * quantizer bits`,
  `lg = log2(max(bits, min_sram_size))`:
      dram : dram_rd(bits)  [+ ceil(bits/64) * sram_wr(lg) when rd_wr_on_io: "write input to sram"]
      sram : ceil(bits/64) * sram_rd(lg)
      any other placement ("fixed"): 0
  write of a tensor:
      dram : [ceil(bits/64) * sram_rd(lg) when rd_wr_on_io: "read from sram"] + dram_wr(bits)
      sram : ceil(bits/64) * sram_wr(lg)
  tensors of model input layers (reads) / model output layers (writes) ignore the configured
  placement: dram when rd_wr_on_io else sram.
  every gate energy is clamped at 0 (`max(poly(x), 0)`); sram/dram "wr" cost the same as "rd".
  MAC layers   : count * (gate_factor * OP[type(multiplier)][implementation](gate_bits)
                          + OP[type(accumulator)]["add"](accumulator bits))
  Add/Multiply/Subtract : (inputs - 1) * count * gate_factor * OP[type][implementation](gate_bits)
  average / global average pooling : count * OP[type(accumulator)]["add"](accumulator bits)
  activations and everything else  : 0
  entries are rounded to 2 decimals; total_cost = int(sum of the unrounded contributions).

Nothing here imports the repository.
"""
import math

HOROWITZ = {
    "fpm_add": [0.003125, 0],
    "fpm_mul": [0.002994791667, 0.001041666667, 0],
    "fp16_add": [0.4],
    "fp16_mul": [1.1],
    "fp32_add": [0.9],
    "fp32_mul": [3.7],
    "sram_rd": [9.02427321e-04, -2.68847858e-02, 2.08900804e-01, 0.0],
    "dram_rd": [20.3125, 0],
}
SRAM_WORD = 64.0
ENTRY_KEYS = ("inputs", "outputs", "parameters", "op_cost")
INCLUDE_ENERGY = {
    "QActivation": ["outputs"], "QAdaptiveActivation": ["outputs"], "Activation": ["outputs"],
    "QBatchNormalization": ["parameters"], "BatchNormalization": ["parameters"],
    "Add": ["op_cost"], "Subtract": ["op_cost"], "MaxPooling2D": ["op_cost"],
    "default": ["inputs", "parameters", "op_cost"],
}
MAC_CLASSES = ("QConv2D", "QConv1D", "QDepthwiseConv2D", "QDense", "Conv2D", "Conv1D",
               "DepthwiseConv2D", "Dense")
MERGE_OP_CLASSES = ("Add", "Multiply", "Subtract")
POOL_CLASSES = ("AveragePooling2D", "AvgPool2D", "GlobalAvgPool2D", "GlobalAveragePooling2D")


def poly(name, x):
  y = 0.0
  for c in HOROWITZ[name]:
    y = y * x + c
  return y


def gate(family, op, x):
  """Energy of one gate / one memory word access, clamped at zero."""
  x = float(x)
  if family in ("fp32", "fp16"):
    if op not in ("add", "mul"):
      raise KeyError((family, op))
    v = poly("%s_%s" % (family, op), x)
  elif family == "fpm":
    if op == "mul":
      v = poly("fpm_mul", x)
    elif op in ("add", "mux", "xor", "and", "or", "shifter"):
      v = poly("fpm_add", x)
    else:
      raise KeyError((family, op))
  elif family == "sram":
    if op not in ("rd", "wr"):
      raise KeyError((family, op))
    v = poly("sram_rd", x)
  elif family == "dram":
    if op not in ("rd", "wr"):
      raise KeyError((family, op))
    v = poly("dram_rd", x)
  else:
    raise KeyError((family, op))
  return max(v, 0.0)


def family_of(quantizer_type, bits):
  """'fp32' / 'fp16' for floating point types, 'fpm' (fixed point machine) otherwise."""
  if quantizer_type == "floating_point":
    return "fp%d" % int(bits)
  return "fpm"


def _lg(total_bits, min_sram_size):
  return math.log2(max(total_bits, min_sram_size))


def mem_read(is_io, elements, bits, mode, min_sram_size, rd_wr_on_io):
  """(energy, expected gate trace) of bringing one tensor to the compute unit."""
  if is_io:
    mode = "dram" if rd_wr_on_io else "sram"
  total = float(elements) * float(bits)
  trace = []
  e = 0.0
  if mode == "dram":
    e += gate("dram", "rd", total)
    trace.append(("dram", "rd", total))
    if rd_wr_on_io:
      lg = _lg(total, min_sram_size)
      e += math.ceil(total / SRAM_WORD) * gate("sram", "wr", lg)
      trace.append(("sram", "wr", lg))
  elif mode == "sram":
    lg = _lg(total, min_sram_size)
    e += math.ceil(total / SRAM_WORD) * gate("sram", "rd", lg)
    trace.append(("sram", "rd", lg))
  return e, trace


def mem_write(is_io, elements, bits, mode, min_sram_size, rd_wr_on_io):
  if is_io:
    mode = "dram" if rd_wr_on_io else "sram"
  total = float(elements) * float(bits)
  trace = []
  e = 0.0
  if mode == "dram":
    if rd_wr_on_io:
      lg = _lg(total, min_sram_size)
      e += math.ceil(total / SRAM_WORD) * gate("sram", "rd", lg)
      trace.append(("sram", "rd", lg))
    e += gate("dram", "wr", total)
    trace.append(("dram", "wr", total))
  elif mode == "sram":
    lg = _lg(total, min_sram_size)
    e += math.ceil(total / SRAM_WORD) * gate("sram", "wr", lg)
    trace.append(("sram", "wr", lg))
  return e, trace


def mac_energy(count, gate_factor, mult_family, mult_op, gate_bits, acc_family, acc_bits):
  c1 = gate_factor * gate(mult_family, mult_op, gate_bits)
  c2 = gate(acc_family, "add", acc_bits)
  return count * (c1 + c2), [(mult_family, mult_op, float(gate_bits)), (acc_family, "add", float(acc_bits))]


def merge_energy(n_inputs, count, gate_factor, family, op, gate_bits):
  return (n_inputs - 1) * count * gate_factor * gate(family, op, gate_bits), [(family, op, float(gate_bits))]


def pool_energy(count, acc_family, acc_bits):
  return count * gate(acc_family, "add", acc_bits), [(acc_family, "add", float(acc_bits))]


def selected_keys(setting, class_name):
  """Documented selection rule of extract_energy_sum / extract_energy_profile."""
  if class_name in setting:
    return list(setting[class_name])
  return list(setting.get("default", []))


def selected_sum(setting, energy_dict):
  """Exact (fsum) sum of the selected entries, plus per-layer sums."""
  vals = []
  per_layer = {}
  for name, item in energy_dict.items():
    if name == "total_cost":
      continue
    keys = selected_keys(setting, item["class_name"])
    mine = [float(item["energy"][k]) for k in keys]
    per_layer[name] = math.fsum(mine)
    vals.extend(mine)
  return math.fsum(vals), per_layer


def expected_include_energy():
  """config_public's include_energy after the documented 'same rule for keras and qkeras' mirroring."""
  out = {}
  for k, v in INCLUDE_ENERGY.items():
    out[k] = list(v)
    if k.startswith("Q"):
      out[k[1:]] = list(v)
  return out
