"""Writes evidence/<id>.json (EVIDENCE.schema.json) from measured counters."""
import json
import os


def _jsonable(o):
  if isinstance(o, set):
    return sorted(o, key=str)
  return str(o)


def write(here, pid, tier, seed, merged, mod, wall, n_unlisted, known,
          known_not_reproduced, inconclusive, problems):
  reach = {}
  for name, r in merged["reach"].items():
    reach[name] = {"lines_executed": len(r["lines_hit"]),
                   "lines_in_anchor": r["lines_total"]}
  samples = merged["samples"][:8]
  if not samples:
    samples = ["(no case completed)"]
  cov = {
      "evaluations": int(merged["evaluations"]),
      "distinct_nontrivial": int(merged["distinct_nontrivial"]),
      "rule": getattr(mod, "RULE", ""),
      "samples": samples,
      "exhaustive": bool(getattr(mod, "EXHAUSTIVE", {}).get(tier, False)),
      "cases": int(merged["cases"]),
      "monitor_counters": merged["counters"],
      "skipped_and_counted": merged["skipped"],
      "observed_sets": {k: (sorted(v, key=str) if len(v) <= 64 else
                            {"size": len(v), "first": sorted(v, key=str)[:32]})
                        for k, v in merged["sets"].items()},
      "observations_not_enforced": {k: v for k, v in merged["observations"].items()},
      "anchored_line_reach": reach,
      "known_findings_reproduced": known,
      "known_findings_not_reproduced_this_run": known_not_reproduced,
      "verdict": ("violated" if n_unlisted else
                  ("inconclusive" if inconclusive else "held on what was observed")),
      "inconclusive_reasons": inconclusive[:10],
      "worker_problems": [{"worker": p["worker"], "rc": str(p["rc"])} for p in problems],
  }
  ev = {
      "property_id": pid,
      "tier": tier,
      "seed": int(seed),
      "level": "exploration",
      "coverage": cov,
      "assumptions": list(getattr(mod, "ASSUMPTIONS", [])) + [
          "runtime: /venv/bin/python, TF_USE_LEGACY_KERAS=1 (tf_keras) unless a "
          "pass is marked keras3; sources imported from /repo working tree",
          "verdict covers only the executions listed in coverage",
      ],
      "wall_s": round(float(wall), 2),
      "violations": int(n_unlisted),
  }
  os.makedirs(os.path.join(here, "evidence"), exist_ok=True)
  path = os.path.join(here, "evidence", "%s.json" % pid)
  tmp = path + ".tmp"
  with open(tmp, "w") as f:
    json.dump(ev, f, indent=1, default=_jsonable)
  os.replace(tmp, path)
  return path
