"""Known-findings file: committed, never written at run time.

A listed finding suppresses exactly the violation signatures it names.  A
signature is a small dict of *mechanism* fields (class, option, route, kind),
never a case hash or a random value.  Matching: every key of the listed
signature must be present in the observed signature with an equal value (or,
when the listed value is a list, with a value contained in it), and the
observed signature must not carry keys the entry does not mention -- so a
violation that differs in any mechanism field is still reported.
"""
import json
import os


def load(here):
  path = os.path.join(here, "known_findings.json")
  if not os.path.exists(path):
    return {"findings": [], "fixed": []}
  with open(path) as f:
    return json.load(f)


def for_property(kf, pid):
  return [f for f in kf.get("findings", []) if f.get("property") == pid
          and f.get("status", "known") == "known"]


def _eq(listed, seen):
  if isinstance(listed, list):
    return seen in listed
  return listed == seen


def match(listed, sig):
  for f in listed:
    want = f["signature"]
    if set(sig.keys()) != set(want.keys()):
      continue
    if all(_eq(want[k], sig[k]) for k in want):
      return f
  return None
