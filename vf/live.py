"""Workload "the repository's own tests" for the membership monitors of C01 / C03 / C04.

One case = one test file of <repo>/tests run in a pytest subprocess (legacy runtime) with the plugin
`vf.live_plugin` loaded, which wraps every quantizer `__call__` of one family and checks each concrete
(input, output) pair the tests produce - eagerly or inside the graphs they build.  What the tests assert is
irrelevant here (a failing test is only counted); the verdict comes from the monitor's own record.
"""
import json
import os
import subprocess
import tempfile

FILES = {
    "quick": ["qactivation_test.py"],
    # the files in which the monitors see concrete quantizer calls (measured; the others only build
    # symbolic or data-dependent-scale quantizers, which these three oracles skip)
    "thorough": ["qactivation_test.py", "qlayers_test.py", "qconvolutional_test.py", "qpooling_test.py",
                 "utils_test.py", "leakyrelu_test.py", "qnoise_test.py", "callbacks_test.py",
                 "print_qstats_test.py", "qtools_model_test.py", "qmac_test.py", "qalpha_test.py",
                 "bn_folding_test.py"],
}


def cases(tier, family, keras3=False):
  if keras3:
    return []
  return [{"part": "live", "file": f, "family": family} for f in FILES[tier]]


def run(case, ctx):
  path = os.path.join(ctx.repo_root, "tests", case["file"])
  if not os.path.exists(path):
    ctx.skip("live.test_file_missing")
    return
  work = tempfile.mkdtemp(prefix="live-", dir=os.environ.get("VERIF_WORKDIR") or "/var/tmp")
  out = os.path.join(work, "live.json")
  env = dict(os.environ, VF_LIVE_OUT=out, VF_LIVE_FAMILIES=case["family"], TF_CPP_MIN_LOG_LEVEL="3")
  env.pop("QKERAS_VERIF", None)
  try:
    r = subprocess.run(["/venv/bin/python", "-m", "pytest", "-q", "-p", "no:cacheprovider",
                        "-p", "vf.live_plugin", "--timeout=600", path],
                       env=env, cwd=work, capture_output=True, text=True, timeout=1500)
  except subprocess.TimeoutExpired:
    ctx.skip("live.pytest_timeout")
    return
  ctx.count("live.pytest_runs")
  if not os.path.exists(out):
    ctx.observe("live.no_record", {"file": case["file"], "tail": (r.stdout or "")[-400:] + (r.stderr or "")[-400:]})
    ctx.skip("live.no_record")
    return
  with open(out) as f:
    d = json.load(f)
  ctx.count("live.tests", d.get("tests", 0))
  for k, n in d.get("events", {}).items():
    cls, how = k.split(":")
    ctx.count("live.events." + cls, n)
    ctx.count("live.calls_" + how, n)
  for k, n in d.get("graph_nodes", {}).items():
    ctx.count("live.graph_nodes", n)
  for k, n in d.get("skipped", {}).items():
    ctx.skip("live." + k, n)
  ctx.count("live.elements", d.get("elements", 0))
  ctx.evals(d.get("elements", 0))
  for c in d.get("configs", []):
    ctx.seen("live.configs", c)
    ctx.nontrivial("live", case["file"], c)
  for tb, n in d.get("errors", {}).items():
    ctx.count("live.monitor_errors", n)
    ctx.observe("live.monitor_error", {"file": case["file"], "traceback": tb})
  for v in d.get("violations", []):
    for _ in range(max(1, min(v.get("count", 1), 3))):
      ctx.violation(dict(v["sig"], part="live"), "[%s] %s" % (case["file"], v["msg"]),
                    {"witnesses": v.get("witnesses"), "count": v.get("count")})
  ctx.sample({"live": case["file"], "family": case["family"], "events": d.get("events"),
              "elements": d.get("elements"), "configs": len(d.get("configs", [])), "pytest_tail": (r.stdout or "")[-160:]})
  try:
    os.unlink(out)
    os.rmdir(work)
  except OSError:
    pass
