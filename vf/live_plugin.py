"""pytest plugin: the membership oracles of C01 / C03 / C04 as *online monitors* while the repository's
own tests are the workload (`-p vf.live_plugin`, legacy runtime).

Every `__call__` of a monitored quantizer class is wrapped.  Eager calls are checked directly; symbolic
calls (the tests mostly build `K.function`s and models) get a side-effect node - a `tf.numpy_function`
returning 0.0 that is added to the returned tensor - so that the oracle runs on the
concrete (input, output) pair each time the graph executes.  The value and the gradient of the returned
tensor are unchanged (the node's constant 0.0 is added under stop_gradient).

Only membership is asserted here (the part of the three statements that holds for any input whatever the
workload does): the tests choose the inputs.  The monitor never raises into the test; it records into a
JSON file named by VF_LIVE_OUT, which the calling check folds into its verdict:

  {"events": {cls: n}, "elements": n, "configs": [...], "violations": [{sig, msg, detail}], "errors": [...]}
"""
import json
import os
import threading
import traceback

import numpy as np

FAMILIES = {
    "fixed": ("quantized_bits", "quantized_relu", "quantized_tanh", "quantized_sigmoid", "quantized_linear"),
    "po2": ("quantized_po2", "quantized_relu_po2"),
    "bt": ("binary", "ternary", "stochastic_binary", "stochastic_ternary"),
}

_lock = threading.Lock()
STATE = {"events": {}, "graph_nodes": {}, "elements": 0, "configs": {}, "violations": {}, "errors": {},
         "skipped": {}, "tests": 0, "current": None}


def _bump(d, k, n=1):
  d[k] = d.get(k, 0) + n


def _num(v):
  """python number for a constructor value that may be a tf.Variable / numpy scalar; None if symbolic."""
  if v is None or isinstance(v, (bool, int, float)):
    return v
  try:
    return float(np.asarray(v.numpy() if hasattr(v, "numpy") else v))
  except Exception:      # pylint: disable=broad-except
    return "symbolic"


def _violation(sig, msg, detail):
  key = json.dumps(sig, sort_keys=True)
  with _lock:
    v = STATE["violations"].setdefault(key, {"sig": sig, "msg": msg, "count": 0, "witnesses": []})
    v["count"] += 1
    if len(v["witnesses"]) < 3:
      v["witnesses"].append(dict(detail, test=STATE["current"]))


# ----------------------------------------------------------------------------- oracles
def _check_fixed(name, q, x, y):
  from vf.ref import fixed
  kw = {}
  for k in ("bits", "integer", "keep_negative", "symmetric", "negative_slope", "relu_upper_bound",
            "is_quantized_clip", "use_sigmoid", "use_real_tanh", "use_real_sigmoid"):
    if hasattr(q, k):
      kw[k] = _num(getattr(q, k))
  alpha = getattr(q, "alpha", None)
  if isinstance(alpha, str) or (name == "quantized_linear" and getattr(q, "auto_alpha", False)):
    return "data_dependent_scale"            # C05's subject, needs the scale of *this* call
  alpha = _num(alpha)
  if alpha == "symbolic" or any(v == "symbolic" for v in kw.values()):
    return "symbolic_option"
  if _num(getattr(q, "qnoise_factor", 1.0)) != 1.0:
    return "qnoise_factor_not_one"           # interpolated outputs are C07's subject
  if alpha is not None and name != "quantized_relu":
    kw["alpha"] = alpha
  if name == "quantized_relu":
    kw["bits"], kw["integer"] = int(kw["bits"]), int(kw["integer"])
  if kw.get("bits") is None or float(kw["bits"]) != int(kw["bits"]) or float(kw.get("integer", 0)) != int(kw.get("integer", 0)):
    return "non_integer_width"
  kw["bits"] = int(kw["bits"])
  if "integer" in kw:
    kw["integer"] = int(kw["integer"])
  if "symmetric" in kw:
    kw["symmetric"] = bool(kw["symmetric"])
  if "keep_negative" in kw:
    kw["keep_negative"] = bool(kw["keep_negative"])
  fmt = fixed.make({"cls": name, "kw": kw, "sigmoid": "hard"})
  if not fmt.supported or fmt.hi < fmt.lo:
    return "unsupported_configuration"
  if name == "quantized_linear":
    return _lattice(name, fmt, kw, x, y)
  return _lattice(name, fmt, kw, x, y)


def _lattice(name, fmt, kw, x, y):
  from vf.ref import fixed
  ok = np.isfinite(x) & (np.abs(x) < fixed.domain_bound(fmt))
  if not ok.any():
    return "outside_domain"
  xs, ys = x[ok].astype(np.float64), y[ok].astype(np.float64)
  k = fixed.output_code(fmt, ys)
  tol = fixed.code_tolerance(fmt, xs, ys, k)
  base = {"workload": "repo_tests", "cls": name}
  off = np.abs(k - np.round(k)) > tol
  if (~np.isfinite(ys)).any():
    _violation(dict(base, kind="non_finite"), "non-finite output for a finite input", {"cfg": kw})
  elif off.any():
    i = int(np.argmax(off))
    _violation(dict(base, kind="off_lattice"), "output %r is not a multiple of the step (code %r)" % (ys[i], k[i]),
               {"cfg": kw, "x": float(xs[i]), "y": float(ys[i])})
  else:
    kr = np.round(k)
    if (kr < fmt.lo).any() or (kr > fmt.hi).any():
      i = int(np.argmax((kr < fmt.lo) | (kr > fmt.hi)))
      _violation(dict(base, kind="code_outside_format"), "code %d outside [%d, %d]" % (kr[i], fmt.lo, fmt.hi),
                 {"cfg": kw, "x": float(xs[i]), "y": float(ys[i])})
  with _lock:
    STATE["elements"] += int(ok.sum())
    STATE["configs"]["%s%r" % (name, sorted(kw.items()))] = 1
  return None


def _check_po2(name, q, x, y):
  from vf.ref import po2
  bits = _num(q.bits)
  mv = _num(getattr(q, "max_value", None))
  if bits == "symbolic" or mv == "symbolic":
    return "symbolic_option"
  if _num(getattr(q, "qnoise_factor", 1.0)) != 1.0:
    return "qnoise_factor_not_one"
  if mv is not None and (mv <= 0 or 2.0 ** round(np.log2(mv)) != mv):
    return "max_value_not_a_power_of_two"
  slope = _num(getattr(q, "negative_slope", 0)) or 0
  if name == "quantized_relu_po2" and slope:
    return "leaky_po2"                       # the negative side has its own sub-format; C03 covers it
  lo, hi = po2.exponent_interval(name, int(bits), mv)
  if hi < lo:
    return "empty_exponent_interval"
  ok = np.isfinite(x) & (np.abs(x) < po2.domain_bound(hi, mv))
  ys = y[ok].astype(np.float64)
  nz = ys[ys != 0]
  base = {"workload": "repo_tests", "cls": name}
  kw = {"bits": int(bits), "max_value": mv}
  if (~np.isfinite(ys)).any():
    _violation(dict(base, kind="non_finite"), "non-finite output", {"cfg": kw})
  elif nz.size:
    if name == "quantized_relu_po2" and (nz < 0).any():
      _violation(dict(base, kind="negative_output"), "negative output %r" % float(nz.min()), {"cfg": kw})
    e = np.log2(np.abs(nz))
    if (e != np.round(e)).any():
      i = int(np.argmax(e != np.round(e)))
      _violation(dict(base, kind="not_a_power_of_two"), "|output| %r" % float(abs(nz[i])), {"cfg": kw})
    elif (e < lo).any() or (e > hi).any():
      i = int(np.argmax((e < lo) | (e > hi)))
      _violation(dict(base, kind="exponent_out_of_interval"), "exponent %d outside [%d, %d]" % (e[i], lo, hi),
                 {"cfg": kw, "y": float(nz[i])})
  with _lock:
    STATE["elements"] += int(ok.sum())
    STATE["configs"]["%s%r" % (name, sorted(kw.items(), key=str))] = 1
  return None


def _check_bt(name, q, x, y):
  alpha = getattr(q, "alpha", None)
  if isinstance(alpha, str):
    return "data_dependent_scale"
  alpha = _num(alpha)
  if alpha == "symbolic":
    return "symbolic_option"
  if _num(getattr(q, "qnoise_factor", 1.0)) != 1.0:
    return "qnoise_factor_not_one"
  a = 1.0 if alpha is None else float(alpha)
  if a <= 0:
    return "non_positive_scale"
  ok = np.isfinite(x)
  ys = y[ok].astype(np.float64) / a
  if name in ("binary", "stochastic_binary"):
    allowed = (0.0, 1.0) if getattr(q, "use_01", False) else (-1.0, 1.0)
  else:
    allowed = (-1.0, 0.0, 1.0)
  bad = ~np.isin(ys, allowed)
  if a != 1.0:
    bad = bad & ~np.isin(np.round(ys * 2 ** 20) / 2 ** 20, allowed)
  if bad.any():
    _violation({"workload": "repo_tests", "cls": name, "kind": "code_outside_set"},
               "output/alpha = %r not in %r" % (float(ys[bad][0]), allowed), {"alpha": a})
  with _lock:
    STATE["elements"] += int(ok.sum())
    STATE["configs"]["%s(alpha=%r,use_01=%r)" % (name, alpha, getattr(q, "use_01", None))] = 1
  return None


CHECKS = {}
for _n in FAMILIES["fixed"]:
  CHECKS[_n] = _check_fixed
for _n in FAMILIES["po2"]:
  CHECKS[_n] = _check_po2
for _n in FAMILIES["bt"]:
  CHECKS[_n] = _check_bt


def _observe(name, q, x, y, how):
  try:
    x = np.asarray(x, dtype=np.float32).ravel()
    y = np.asarray(y, dtype=np.float32).ravel()
    if x.size != y.size or x.size == 0:
      with _lock:
        _bump(STATE["skipped"], name + ":shape")
      return
    why = CHECKS[name](name, q, x, y)
    with _lock:
      if why:
        _bump(STATE["skipped"], name + ":" + why)
      else:
        _bump(STATE["events"], name + ":" + how)
  except Exception:      # pylint: disable=broad-except
    with _lock:
      _bump(STATE["errors"], traceback.format_exc()[-600:])


def _wrap(cls, name):
  import tensorflow as tf
  orig = cls.__call__
  if getattr(orig, "_vf_live", False):
    return

  def __call__(self, x, *a, **kw):
    y = orig(self, x, *a, **kw)
    try:
      if type(self).__name__ != name or not tf.is_tensor(y):
        return y
      xt = tf.convert_to_tensor(x) if not tf.is_tensor(x) else x
      if hasattr(y, "numpy") and hasattr(xt, "numpy"):
        _observe(name, self, xt.numpy(), y.numpy(), "eager")
        return y
      if xt.dtype != tf.float32 or y.dtype != tf.float32:
        return y
      q = self

      def probe(xv, yv):
        _observe(name, q, xv, yv, "graph")
        return np.int32(0)

      def probe_f(xv, yv):
        probe(xv, yv)
        return np.float32(0.0)

      # a *data* dependency: Keras' functional API rebuilds graphs from tensor history and would drop a
      # node that is attached by a control dependency only.  y + 0.0 is y (the sign of a zero aside).
      node = tf.numpy_function(probe_f, [xt, y], tf.float32, stateful=True)
      with _lock:
        _bump(STATE["graph_nodes"], name)
      return y + tf.stop_gradient(tf.reshape(node, []))
    except Exception:      # pylint: disable=broad-except
      with _lock:
        _bump(STATE["errors"], traceback.format_exc()[-600:])
      return y

  __call__._vf_live = True
  cls.__call__ = __call__


def install(families):
  from qkeras import quantizers as Q
  for fam in families:
    for name in FAMILIES[fam]:
      _wrap(getattr(Q, name), name)


def dump():
  out = os.environ.get("VF_LIVE_OUT")
  if not out:
    return
  with _lock:
    d = {"events": STATE["events"], "graph_nodes": STATE["graph_nodes"], "elements": STATE["elements"],
         "configs": sorted(STATE["configs"]), "violations": list(STATE["violations"].values()),
         "errors": STATE["errors"], "skipped": STATE["skipped"], "tests": STATE["tests"]}
  with open(out, "w") as f:
    json.dump(d, f, indent=1)


# ----------------------------------------------------------------------------- pytest hooks
def pytest_configure(config):
  fams = [f for f in os.environ.get("VF_LIVE_FAMILIES", "fixed,po2,bt").split(",") if f]
  install(fams)


def pytest_runtest_setup(item):
  STATE["current"] = item.nodeid
  STATE["tests"] += 1


def pytest_sessionfinish(session, exitstatus):
  dump()
