"""Option lattice of the 14 registered quantizer classes (TF-free).

For every constructor parameter: the non-default values that are exercised.
REQUIRES lists prerequisites that make an option admissible (the library
rejects or ignores it otherwise).  instances() yields: the default instance,
every single non-default option, every pair of non-default options (pairwise
covering) and, in the thorough tier, the full cross product when it is small
or a random sample of it.
"""
import itertools
import random

PTS = "PTS"  # placeholder: post_training_scale taken from a first call at run time
ARR_COL = "ARR_COL"    # placeholder: per-row array alpha of shape (6, 1) (non-trailing axis of the (6, 4) probes)
ARR_ROW = "ARR_ROW"    # placeholder: per-column array alpha of shape (1, 4)
NP_ALPHA = "NP_FLOAT32_2"   # placeholder: alpha = numpy.float32(2.0) (an option value computed with numpy, e.g. np.mean(np.abs(w)))
PTS_X = "PTS_X"   # placeholder: a frozen post-training scale that is *not* a power of two (0.75 x the scale of a first call)
PLACEHOLDERS = (PTS, PTS_X, ARR_COL, ARR_ROW, NP_ALPHA)

DOMAIN = {
    "quantized_bits": {
        "bits": [4, 2], "integer": [2, 1, -2], "symmetric": [1], "keep_negative": [False],
        "alpha": [2.0, 2.0 ** -10, "auto", "auto_po2", NP_ALPHA], "use_stochastic_rounding": [True],
        "scale_axis": [0], "qnoise_factor": [0.5, 0.0], "var_name": ["vq"], "use_ste": [False],
        "use_variables": [True], "elements_per_scale": [2], "min_po2_exponent": [-2, 0],
        "max_po2_exponent": [1, 0], "post_training_scale": [PTS, PTS_X],
    },
    "quantized_linear": {
        "bits": [4, 2], "integer": [2, 1], "symmetric": [0], "keep_negative": [False],
        "alpha": [2.0, "auto", "auto_po2", ARR_COL, ARR_ROW], "use_stochastic_rounding": [True],
        "scale_axis": [0], "qnoise_factor": [0.5], "var_name": ["vq"], "use_variables": [True],
    },
    "bernoulli": {"alpha": [2.0, "auto", "auto_po2"], "temperature": [2.0, 8.0], "use_real_sigmoid": [False]},
    "ternary": {"alpha": [2.0, "auto", "auto_po2", NP_ALPHA], "threshold": [0.7, 0.0, 0.123456789], "use_stochastic_rounding": [True],
                "number_of_unrolls": [2]},
    "stochastic_ternary": {"alpha": [2.0, "auto", "auto_po2"], "threshold": [0.7, 0.0], "temperature": [4.0, 6.0],
                           "use_real_sigmoid": [False], "number_of_unrolls": [2]},
    "binary": {"use_01": [True], "alpha": [2.0, "auto", "auto_po2", NP_ALPHA], "use_stochastic_rounding": [True],
               "scale_axis": [0, [0, 1]], "elements_per_scale": [2], "min_po2_exponent": [-1], "max_po2_exponent": [0]},
    "stochastic_binary": {"alpha": [2.0, "auto", "auto_po2"], "temperature": [2.0, 8.0], "use_real_sigmoid": [False]},
    "quantized_relu": {
        # 16 bits with a slope of 2^-9 / 2^-12: small floats whose printed form needs every digit
        "bits": [4, 3, 16], "integer": [1, 2], "use_sigmoid": [1], "negative_slope": [0.25, 2.0 ** -9, 2.0 ** -12],
        "use_stochastic_rounding": [True], "relu_upper_bound": [1.5, 1.7000000476837158], "is_quantized_clip": [False],
        "qnoise_factor": [0.5, 0.123456789], "var_name": ["vq"], "use_ste": [False], "use_variables": [True],
    },
    "quantized_ulaw": {"bits": [4], "integer": [1], "symmetric": [1], "u": [100.0]},
    "quantized_tanh": {"bits": [4], "use_stochastic_rounding": [True], "symmetric": [True], "use_real_tanh": [True]},
    "quantized_sigmoid": {"bits": [4], "symmetric": [True], "use_real_sigmoid": [True], "use_stochastic_rounding": [True]},
    "quantized_po2": {
        "bits": [4, 5], "max_value": [2.0, 0.5, 3.0, 1.5], "use_stochastic_rounding": [True],
        "quadratic_approximation": [True], "log2_rounding": ["floor"], "qnoise_factor": [0.5],
        "var_name": ["vq"], "use_ste": [False], "use_variables": [True],
    },
    "quantized_relu_po2": {
        "bits": [4, 5], "max_value": [2.0, 0.5, 3.0, 1.5], "negative_slope": [0.25], "use_stochastic_rounding": [True],
        "quadratic_approximation": [True], "log2_rounding": ["floor"], "qnoise_factor": [0.5],
        "var_name": ["vq"], "use_ste": [False], "use_variables": [True],
    },
    "quantized_hswish": {
        "bits": [6, 4], "integer": [2, 1, -1], "symmetric": [1], "alpha": [2.0, "auto", "auto_po2"], "use_stochastic_rounding": [True],
        "scale_axis": [0], "qnoise_factor": [0.5], "var_name": ["vq"], "use_variables": [True],
        "relu_shift": [2], "relu_upper_bound": [4],
    },
}

# (class, option) -> prerequisite options merged into the instance
REQUIRES = {
    ("quantized_bits", "elements_per_scale"): {"alpha": "auto_po2", "scale_axis": 0},
    ("quantized_bits", "min_po2_exponent"): {"alpha": "auto_po2"},
    ("quantized_bits", "max_po2_exponent"): {"alpha": "auto_po2"},
    ("quantized_bits", "post_training_scale"): {"alpha": "auto_po2"},
    ("quantized_bits", "scale_axis"): {"alpha": "auto_po2"},
    ("quantized_linear", "scale_axis"): {"alpha": "auto_po2"},
    ("quantized_hswish", "scale_axis"): {"alpha": "auto_po2"},
    ("binary", "elements_per_scale"): {"alpha": "auto", "scale_axis": 0},
    ("binary", "scale_axis"): {"alpha": "auto"},
    ("binary", "min_po2_exponent"): {"alpha": "auto_po2"},
    ("binary", "max_po2_exponent"): {"alpha": "auto_po2"},
    ("ternary", "use_stochastic_rounding"): {"alpha": "auto"},
    ("ternary", "number_of_unrolls"): {"alpha": "auto"},
    ("stochastic_ternary", "number_of_unrolls"): {"alpha": "auto"},
    ("quantized_relu", "relu_upper_bound"): {"is_quantized_clip": False},
}


def valid(cls, kw):
  a = kw.get("alpha")
  auto = isinstance(a, str) and a in ("auto", "auto_po2")      # placeholders (tensor / numpy-typed alphas) are constants
  if cls == "quantized_bits":
    if kw.get("elements_per_scale") is not None and (a != "auto_po2" or kw.get("scale_axis") is None):
      return False
    if (kw.get("min_po2_exponent") is not None or kw.get("max_po2_exponent") is not None) and a != "auto_po2":
      return False
    if kw.get("min_po2_exponent") is not None and kw.get("max_po2_exponent") is not None and \
        kw["min_po2_exponent"] > kw["max_po2_exponent"]:
      return False
    if kw.get("post_training_scale") is not None and not auto:
      return False
    if auto and kw.get("bits", 8) < 3:
      return False
    if kw.get("scale_axis") is not None and not auto:
      return False
  if cls == "quantized_hswish" and kw.get("scale_axis") is not None and not auto:
    return False
  if cls == "quantized_linear":
    if kw.get("scale_axis") is not None and not auto:
      return False
    if auto and kw.get("bits", 8) < 3:
      return False
  if cls in ("ternary", "stochastic_ternary"):
    if auto and kw.get("threshold") is not None:
      return False
    if kw.get("use_stochastic_rounding") and not auto:
      return False
  if cls == "binary":
    if kw.get("elements_per_scale") is not None and (not auto or kw.get("scale_axis") is None):
      return False
    if (kw.get("min_po2_exponent") is not None or kw.get("max_po2_exponent") is not None) and a != "auto_po2":
      return False
    if kw.get("scale_axis") is not None and not auto:
      return False
  if cls == "quantized_relu":
    slope = kw.get("negative_slope", 0.0)
    if slope and slope * 2 ** (kw.get("bits", 8) - 1) < 1:
      return False
    if kw.get("use_sigmoid") and (kw.get("relu_upper_bound") is not None or kw.get("is_quantized_clip") is False):
      return False
  return True


def _with_requirements(cls, kw):
  out = dict(kw)
  changed = True
  while changed:
    changed = False
    for k in list(out):
      req = REQUIRES.get((cls, k))
      if req:
        for rk, rv in req.items():
          if rk not in out:
            out[rk] = rv
            changed = True
  return out


def instances(tier, seed, classes=None):
  rnd = random.Random(seed + 99)
  out = []
  seen = set()

  def add(cls, kw, how):
    kw = _with_requirements(cls, kw)
    if not valid(cls, kw):
      return
    key = (cls, tuple(sorted((k, str(v)) for k, v in kw.items())))
    if key in seen:
      return
    seen.add(key)
    out.append({"cls": cls, "kw": kw, "how": how})

  for cls, dom in DOMAIN.items():
    if classes and cls not in classes:
      continue
    add(cls, {}, "default")
    opts = [(k, v) for k, vs in dom.items() for v in vs]
    for k, v in opts:
      add(cls, {k: v}, "single")
    for (k1, v1), (k2, v2) in itertools.combinations(opts, 2):
      if k1 == k2:
        continue
      add(cls, {k1: v1, k2: v2}, "pair")
    if tier == "thorough":
      keys = list(dom)
      total = 1
      for k in keys:
        total *= (len(dom[k]) + 1)
      n = min(total, 3000)
      for _ in range(n):
        kw = {}
        for k in keys:
          v = rnd.choice([None] + dom[k])
          if v is not None:
            kw[k] = v
        add(cls, kw, "random_cross")
  rnd.shuffle(out)
  for i, c in enumerate(out):
    c["idx"], c["seed"] = i, seed
  return out
