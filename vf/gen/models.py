"""Model specifications (TF-free) and their builder (TF side).

spec = {"input": [dims], "layers": [{"t": class name, "name": str, "kw": {...}, "in": [node indices]}]}
node -1 is the model input; the output is the last node.
"""
import collections
import random
import zlib

WQ = ["quantized_bits(4,0,1)", "quantized_bits(3,1,1,alpha=1.0)", "ternary", "binary(alpha=1.0)", "quantized_po2(4)",
      "quantized_bits(6,2,1,alpha='auto')"]
BQ = ["quantized_bits(4,0,1)", "quantized_bits(8,3,1)", "quantized_po2(4)"]
AQ = ["quantized_relu(4,1)", "quantized_bits(6,2,1)", "quantized_tanh(4)", "binary", "quantized_relu(6,2,negative_slope=0.25)"]

QCLS = {"Dense": "QDense", "Conv1D": "QConv1D", "Conv2D": "QConv2D", "DepthwiseConv2D": "QDepthwiseConv2D",
        "SeparableConv1D": "QSeparableConv1D", "SeparableConv2D": "QSeparableConv2D",
        "SimpleRNN": "QSimpleRNN", "LSTM": "QLSTM", "GRU": "QGRU", "Bidirectional": "QBidirectional",
        "AveragePooling2D": "QAveragePooling2D", "GlobalAveragePooling2D": "QGlobalAveragePooling2D",
        "BatchNormalization": "QBatchNormalization", "Activation": "QActivation", "ReLU": "QActivation",
        "LeakyReLU": "QActivation"}


class _Names(object):
  def __init__(self):
    self.c = collections.Counter()

  def __call__(self, p):
    self.c[p] += 1
    return "%s_%d" % (p, self.c[p])


def float_model_spec(rnd, allow=("sep", "gru", "bidir", "leaky", "gap")):
  """A small sequential / branched float Keras model."""
  nm = _Names()
  mode = rnd.choice(["img", "vec", "seq"])
  shape = {"img": [8, 8, 2], "vec": [6], "seq": [5, 3]}[mode]
  layers = []
  rank = len(shape) + 1
  ch = shape[-1]
  spatial = shape[0]
  cur = -1

  def add(t, prefix, kw, ins=None):
    nonlocal cur
    layers.append({"t": t, "name": nm(prefix), "kw": kw, "in": [cur] if ins is None else ins})
    cur = len(layers) - 1
    return cur

  nl = rnd.randint(2, 6)
  for _ in range(nl):
    act = rnd.choice([None, "relu", "tanh", "sigmoid", "linear"])
    ub = bool(rnd.randint(0, 1))
    if rank == 4:
      opts = ["conv", "conv", "dw", "bn", "act", "relu", "pool", "conv_branch", "flatten", "concat_branch", "dropout"]
      if "sep" in allow:
        opts.append("sep")
      if "leaky" in allow:
        opts.append("leaky")
      if "gap" in allow:
        opts.append("gap")
      t = rnd.choice(opts)
      if t == "conv":
        f = rnd.randint(1, 3)
        add("Conv2D", "conv", {"filters": f, "kernel_size": [rnd.randint(1, 2)] * 2, "padding": "same", "activation": act,
                                "use_bias": ub, "strides": rnd.choice([1, 1, 2]) if spatial >= 4 else 1})
        if layers[-1]["kw"]["strides"] == 2:
          spatial = (spatial + 1) // 2
        ch = f
      elif t == "sep":
        f = rnd.randint(1, 3)
        add("SeparableConv2D", "sep", {"filters": f, "kernel_size": [rnd.randint(1, 2)] * 2, "padding": "same",
                                        "activation": act, "use_bias": ub})
        ch = f
      elif t == "dw":
        add("DepthwiseConv2D", "dw", {"kernel_size": [rnd.randint(1, 2)] * 2, "padding": "same", "activation": act, "use_bias": ub})
      elif t == "bn":
        add("BatchNormalization", "bn", rnd.choice([{}, {}, {}, {"center": False, "scale": False}, {"scale": False}]))
      elif t == "act":
        add("Activation", "act", {"activation": rnd.choice(["relu", "tanh", "sigmoid", "linear"])})
      elif t == "relu":
        add("ReLU", "relu", {})
      elif t == "leaky":
        add("LeakyReLU", "leaky", {"alpha": 0.25})
      elif t == "dropout":
        add("Dropout", "drop", {"rate": 0.25})
      elif t == "pool":
        if spatial >= 2:
          add("AveragePooling2D", "pool", {"pool_size": [2, 2]})
          spatial //= 2
      elif t == "gap":
        add("GlobalAveragePooling2D", "gap", {})
        rank = 2
      elif t == "conv_branch":
        src = cur
        a = add("Conv2D", "conv", {"filters": ch, "kernel_size": [1, 1], "use_bias": ub})
        add("Add", "add", {}, ins=[src, a])
      elif t == "concat_branch":
        src = cur
        a = add("Conv2D", "conv", {"filters": 1, "kernel_size": [1, 1], "use_bias": ub, "activation": act})
        add("Concatenate", "cat", {}, ins=[src, a])
        ch = ch + 1
      elif t == "flatten":
        add("Flatten", "flat", {})
        rank = 2
    elif rank == 3:
      opts = ["conv1d", "rnn", "lstm", "act", "flat"]
      if "gru" in allow:
        opts.append("gru")
      if "bidir" in allow:
        opts.append("bidir")
      if "sep" in allow:
        opts.append("sep1d")
      t = rnd.choice(opts)
      if t == "conv1d":
        add("Conv1D", "conv1d", {"filters": rnd.randint(1, 3), "kernel_size": rnd.randint(1, 2), "padding": "same",
                                  "activation": act, "use_bias": ub})
      elif t == "sep1d":
        add("SeparableConv1D", "sep1d", {"filters": rnd.randint(1, 3), "kernel_size": rnd.randint(1, 2), "padding": "same",
                                          "activation": act, "use_bias": ub})
      elif t in ("rnn", "lstm", "gru"):
        seq = bool(rnd.randint(0, 1))
        add({"rnn": "SimpleRNN", "lstm": "LSTM", "gru": "GRU"}[t], t,
            {"units": rnd.randint(1, 3), "return_sequences": seq, "use_bias": ub})
        if not seq:
          rank = 2
      elif t == "bidir":
        seq = bool(rnd.randint(0, 1))
        add("Bidirectional", "bidir", {"inner": rnd.choice(["LSTM", "SimpleRNN"]), "units": rnd.randint(1, 3),
                                        "return_sequences": seq, "use_bias": ub, "backward": rnd.random() < 0.4})
        if not seq:
          rank = 2
      elif t == "act":
        add("Activation", "act", {"activation": rnd.choice(["relu", "tanh"])})
      else:
        add("Flatten", "flat", {})
        rank = 2
    else:
      t = rnd.choice(["dense", "dense", "act", "bn", "relu", "dropout"] + (["leaky"] if "leaky" in allow else []))
      if t == "dense":
        add("Dense", "dense", {"units": rnd.randint(1, 5), "activation": act, "use_bias": ub})
      elif t == "act":
        add("Activation", "act", {"activation": rnd.choice(["relu", "tanh", "softmax"])})
      elif t == "bn":
        add("BatchNormalization", "bn", rnd.choice([{}, {}, {}, {"center": False, "scale": False}, {"scale": False}]))
      elif t == "relu":
        add("ReLU", "relu", {})
      elif t == "leaky":
        add("LeakyReLU", "leaky", {"alpha": 0.25})
      else:
        add("Dropout", "drop", {"rate": 0.25})
  if not layers:
    add("Activation", "act", {"activation": "relu"})
  for l in layers:     # some weight-owning layers are frozen after the model is built
    if l["t"] in ("Dense", "Conv1D", "Conv2D", "DepthwiseConv2D", "BatchNormalization", "SimpleRNN", "LSTM") and rnd.random() < 0.12:
      l["frozen"] = True
  return {"input": shape, "layers": layers}


def quantization_dict(spec, rnd):
  """A random quantization dictionary for a float spec: per name, per class, both, partial."""
  d = {}
  for l in spec["layers"]:
    cn = l["t"]
    if cn not in QCLS:
      continue
    keys = ([QCLS[cn]] if rnd.random() < 0.5 else []) + ([l["name"]] if rnd.random() < 0.4 else [])
    for key in keys:
      if cn in ("Dense", "Conv1D", "Conv2D", "SeparableConv1D", "SeparableConv2D"):
        e = {"kernel_quantizer": rnd.choice(WQ)}
        if rnd.random() < 0.8:
          e["bias_quantizer"] = rnd.choice(BQ)
        if rnd.random() < 0.3:
          e["activation_quantizer"] = rnd.choice(AQ)
        if rnd.random() < 0.1:
          e.pop("kernel_quantizer")
        if cn.startswith("Separable") and rnd.random() < 0.5:
          e = {"depthwise_quantizer": rnd.choice(WQ), "pointwise_quantizer": rnd.choice(WQ)}
      elif cn == "DepthwiseConv2D":
        e = {"depthwise_quantizer": rnd.choice(WQ)}
        if rnd.random() < 0.8:
          e["bias_quantizer"] = rnd.choice(BQ)
        if rnd.random() < 0.3:
          e["activation_quantizer"] = rnd.choice(AQ)
      elif cn in ("SimpleRNN", "LSTM", "GRU", "Bidirectional"):
        e = {"kernel_quantizer": rnd.choice(WQ), "recurrent_quantizer": rnd.choice(WQ)}
        if rnd.random() < 0.8:
          e["bias_quantizer"] = rnd.choice(BQ)
        if rnd.random() < 0.3:
          e["state_quantizer"] = "quantized_bits(6,2,1)"
        if rnd.random() < 0.2:
          e["activation_quantizer"] = "quantized_tanh(5)"
        # the gate activation has its own entry (LSTM / GRU only); drawn from a private stream so that the
        # dictionaries generated before this entry existed stay what they were
        r2 = random.Random(zlib.crc32(("%s|%s|%s" % (l["name"], key, sorted(e.items()))).encode()))
        if r2.random() < 0.45:
          e["recurrent_activation_quantizer"] = r2.choice(["quantized_sigmoid(5)", "quantized_bits(4,0,1)", "quantized_sigmoid(3)"])
      elif cn in ("AveragePooling2D", "GlobalAveragePooling2D"):
        e = {"average_quantizer": "quantized_bits(8,0,1)"}
        if rnd.random() < 0.3:
          e["activation_quantizer"] = "quantized_bits(6,2,1)"
      elif cn == "BatchNormalization":
        e = {} if rnd.random() < 0.5 else {"gamma_quantizer": "quantized_bits(6,2,1)", "beta_quantizer": "quantized_bits(6,2,1)"}
      else:  # Activation / ReLU / LeakyReLU
        e = rnd.choice([rnd.choice(AQ), {"relu": rnd.choice(AQ)}, {"relu": "quantized_relu(3,1)", "tanh": "quantized_tanh(3)"},
                        {"leakyrelu": "quantized_relu(4,1,negative_slope=0.25)", "relu": "quantized_relu(4,1)"}])
      if key == "QActivation" or cn in ("Activation", "ReLU", "LeakyReLU"):
        d[key if key != l["name"] else l["name"]] = e
      else:
        d[key] = e
  return d


def build(spec, qkeras_mod=None):
  """Builds the tf_keras functional model of a spec."""
  import tensorflow as tf
  L = tf.keras.layers
  inp = L.Input(tuple(spec["input"]), name="in")
  nodes = []

  def get(i):
    return inp if i == -1 else nodes[i]

  for l in spec["layers"]:
    kw = dict(l["kw"])
    t = l["t"]
    if t == "Bidirectional":
      inner = getattr(L, kw.pop("inner"))
      units, seq, ub = kw.pop("units"), kw.pop("return_sequences"), kw.pop("use_bias")
      extra = {}
      if kw.pop("backward", False):     # an explicit backward layer with its own name
        extra["backward_layer"] = inner(units, return_sequences=seq, use_bias=ub, go_backwards=True, name=l["name"] + "_custom_bwd")
      layer = L.Bidirectional(inner(units, return_sequences=seq, use_bias=ub, name=l["name"] + "_inner"), name=l["name"], **extra)
    elif t.startswith("Q") and qkeras_mod is not None and hasattr(qkeras_mod, t):
      for k, v in list(kw.items()):
        if isinstance(v, list) and k in ("kernel_size", "pool_size", "strides"):
          kw[k] = tuple(v)
      layer = getattr(qkeras_mod, t)(name=l["name"], **kw)
    else:
      for k, v in list(kw.items()):
        if isinstance(v, list):
          kw[k] = tuple(v)
      layer = getattr(L, t)(name=l["name"], **kw)
    ins = [get(i) for i in l["in"]]
    nodes.append(layer(ins if len(ins) > 1 else ins[0]))
    if l.get("frozen"):
      layer.trainable = False       # frozen after construction: owns weights, none of them trainable
  return tf.keras.Model(inp, nodes[-1])


# ----------------------------------------------------------------------------- quantized model specs
def Qd(cls, **kw):
  """JSON-able quantizer descriptor, instantiated by build()."""
  return {"qcls": cls, "kw": kw}


WQD = [Qd("quantized_bits", bits=4, integer=0, symmetric=1, alpha=1.0),
       Qd("quantized_bits", bits=4, integer=0, symmetric=1, alpha="auto_po2", scale_axis=0),
       Qd("quantized_bits", bits=6, integer=2, alpha="auto"), Qd("quantized_bits", bits=5, integer=1, alpha="auto", scale_axis=0),
       Qd("quantized_bits", bits=5, integer=1, symmetric=1, alpha="auto_po2", min_po2_exponent=-3, max_po2_exponent=-1),
       Qd("quantized_bits", bits=4, integer=0, symmetric=1, qnoise_factor=0.5),
       Qd("quantized_bits", bits=3, integer=1, symmetric=0, keep_negative=False, alpha=1.0),
       Qd("quantized_po2", bits=4, max_value=2.0), Qd("quantized_po2", bits=4, log2_rounding="floor"),
       Qd("quantized_po2", bits=4, max_value=1),      # an integer-typed option value (prints as 1, not 1.0)
       Qd("ternary", alpha="auto"), Qd("ternary", alpha=1.0, threshold=0.7), Qd("ternary", alpha="auto_po2", number_of_unrolls=2),
       Qd("binary", alpha="auto", scale_axis=0), Qd("binary", use_01=True, alpha=1.0), Qd("binary", alpha="auto_po2", min_po2_exponent=-2),
       Qd("quantized_linear", bits=4, integer=0, alpha="auto_po2"), Qd("quantized_linear", bits=5, integer=1, symmetric=0),
       Qd("stochastic_ternary", alpha="auto"), Qd("stochastic_binary", alpha="auto_po2"), None]
BQD = [Qd("quantized_bits", bits=4, integer=0, symmetric=1), Qd("quantized_bits", bits=8, integer=3, symmetric=1, alpha=1.0),
       Qd("quantized_po2", bits=4), Qd("quantized_linear", bits=6, integer=2), None]
AQD = [Qd("quantized_relu", bits=4, integer=1), Qd("quantized_relu", bits=4, integer=1, negative_slope=0.25),
       Qd("quantized_relu", bits=6, integer=3, relu_upper_bound=6.0),      # is_quantized_clip stays True: the bound is ignored
       Qd("quantized_relu", bits=6, integer=2, is_quantized_clip=False, relu_upper_bound=1.5),
       Qd("quantized_relu", bits=4, integer=1, use_sigmoid=1), Qd("quantized_tanh", bits=4, symmetric=True),
       Qd("quantized_tanh", bits=5, use_real_tanh=True), Qd("quantized_sigmoid", bits=4, use_real_sigmoid=True),
       Qd("quantized_sigmoid", bits=5, symmetric=True), Qd("quantized_bits", bits=6, integer=2, symmetric=1),
       Qd("binary"), Qd("ternary", alpha=1.0), Qd("quantized_po2", bits=4, max_value=4.0),
       Qd("quantized_relu_po2", bits=4, negative_slope=0.25), Qd("quantized_relu_po2", bits=4, max_value=2.0),
       Qd("quantized_hswish", bits=6, integer=2, relu_shift=2, relu_upper_bound=4), Qd("quantized_ulaw", bits=4, integer=1, u=100.0),
       Qd("quantized_linear", bits=6, integer=2), "relu", "tanh", None]
Q_LAYER_KINDS_IMG = ["QConv2D", "QDepthwiseConv2D", "QSeparableConv2D", "QConv2DBatchnorm", "QDepthwiseConv2DBatchnorm",
                     "QActivation", "QAdaptiveActivation", "QBatchNormalization", "QAveragePooling2D",
                     "QGlobalAveragePooling2D", "QScaleShift", "QConv2D_mask", "Flatten", "StockActivation"]
Q_LAYER_KINDS_SEQ = ["QConv1D", "QSeparableConv1D", "QSimpleRNN", "QLSTM", "QGRU", "QBidirectional", "QActivation", "Flatten",
                     "StockActivation"]
Q_LAYER_KINDS_VEC = ["QDense", "QDense", "QActivation", "QAdaptiveActivation", "QBatchNormalization", "QScaleShift",
                     "StockActivation", "StockDense"]


def q_model_spec(rnd, kinds_filter=None, min_layers=2, max_layers=5):
  nm = _Names()
  mode = rnd.choice(["img", "vec", "seq"])
  shape = {"img": [6, 6, 2], "vec": [5], "seq": [4, 3]}[mode]
  layers = []
  rank = len(shape) + 1
  spatial = shape[0]

  def add(t, prefix, kw):
    layers.append({"t": t, "name": nm(prefix), "kw": kw, "in": [len(layers) - 1]})

  def pick_kinds():
    ks = {4: Q_LAYER_KINDS_IMG, 3: Q_LAYER_KINDS_SEQ, 2: Q_LAYER_KINDS_VEC}[rank]
    if kinds_filter:
      ks = [k for k in ks if k in kinds_filter or k == "Flatten"] or ks
    return ks

  for _ in range(rnd.randint(min_layers, max_layers)):
    t = rnd.choice(pick_kinds())
    ub = bool(rnd.randint(0, 1))
    wq, wq2, bq, aq = rnd.choice(WQD), rnd.choice(WQD), rnd.choice(BQD) if ub else None, rnd.choice(AQD)
    if not ub and t in ("QDense", "QConv2D", "QConv1D", "QDepthwiseConv2D", "QConv2DBatchnorm", "QDepthwiseConv2DBatchnorm") and rnd.random() < 0.7:
      bq = rnd.choice(BQD)      # a bias quantizer configured on a layer without a bias is still a reported quantizer
    if t == "QDense":
      add(t, "qdense", {"units": rnd.randint(1, 4), "kernel_quantizer": wq, "bias_quantizer": bq, "activation": aq, "use_bias": ub})
    elif t in ("QConv2D", "QConv2D_mask"):
      kw = {"filters": rnd.randint(1, 3), "kernel_size": [rnd.randint(1, 2)] * 2, "padding": rnd.choice(["same", "valid"]),
            "strides": rnd.choice([1, 1, 2]), "kernel_quantizer": wq, "bias_quantizer": bq, "activation": aq, "use_bias": ub}
      if t == "QConv2D_mask":
        k = kw["kernel_size"][0]
        kw["mask"] = [[1 if (i + j) % 2 == 0 else 0 for j in range(k)] for i in range(k)]
        if kw["filters"] % 2 == 0:     # a weighting mask (entries other than 0 / 1) multiplies the kernel just the same
          kw["mask"] = [[0.5 if (i + j) % 2 == 0 else (-1.0 if i > j else 0.25) for j in range(k)] for i in range(k)]
      add("QConv2D", "qconv", kw)
    elif t == "QConv1D":
      add(t, "qconv1d", {"filters": rnd.randint(1, 3), "kernel_size": rnd.randint(1, 2), "padding": rnd.choice(["same", "causal"]),
                         "kernel_quantizer": wq, "bias_quantizer": bq, "activation": aq, "use_bias": ub})
    elif t == "QDepthwiseConv2D":
      add(t, "qdw", {"kernel_size": [rnd.randint(1, 2)] * 2, "padding": "same", "depth_multiplier": rnd.randint(1, 2),
                     "depthwise_quantizer": wq, "bias_quantizer": bq, "activation": aq, "use_bias": ub})
    elif t == "QSeparableConv2D":
      add(t, "qsep", {"filters": rnd.randint(1, 3), "kernel_size": [rnd.randint(1, 2)] * 2, "padding": "same",
                      "depthwise_quantizer": wq, "pointwise_quantizer": wq2, "bias_quantizer": bq, "activation": aq, "use_bias": ub})
    elif t == "QSeparableConv1D":
      add(t, "qsep1d", {"filters": rnd.randint(1, 3), "kernel_size": rnd.randint(1, 2), "padding": "same",
                        "depthwise_quantizer": wq, "pointwise_quantizer": wq2, "bias_quantizer": bq, "activation": aq, "use_bias": ub})
    elif t in ("QConv2DBatchnorm", "QDepthwiseConv2DBatchnorm"):
      kw = {"kernel_size": [rnd.randint(1, 2)] * 2, "padding": "same", "bias_quantizer": bq, "activation": aq, "use_bias": ub,
            "folding_mode": rnd.choice(["ema_stats_folding", "batch_stats_folding"])}
      if t == "QConv2DBatchnorm":
        kw.update(filters=rnd.randint(1, 3), kernel_quantizer=wq)
      else:
        kw.update(depthwise_quantizer=wq)
      add(t, "qfold", kw)
    elif t in ("QSimpleRNN", "QLSTM", "QGRU"):
      seq = bool(rnd.randint(0, 1))
      kw = {"units": rnd.randint(1, 3), "kernel_quantizer": wq, "recurrent_quantizer": wq2, "bias_quantizer": bq,
            "state_quantizer": rnd.choice([None, Qd("quantized_bits", bits=6, integer=2, symmetric=1)]),
            "activation": rnd.choice([Qd("quantized_tanh", bits=4), "tanh", Qd("quantized_bits", bits=6, integer=2, symmetric=1)]),
            "return_sequences": seq, "use_bias": ub}
      if t != "QSimpleRNN":
        kw["recurrent_activation"] = rnd.choice([Qd("quantized_sigmoid", bits=4), "sigmoid", "hard_sigmoid"])
      if t == "QGRU":
        kw["reset_after"] = bool(rnd.randint(0, 1))
      add(t, "qrnn", kw)
      if not seq:
        rank = 2
    elif t == "QBidirectional":
      seq = bool(rnd.randint(0, 1))
      add(t, "qbidir", {"inner": rnd.choice(["QLSTM", "QSimpleRNN", "QGRU"]), "units": rnd.randint(1, 3),
                        "kernel_quantizer": wq, "recurrent_quantizer": wq2, "bias_quantizer": bq, "return_sequences": seq, "use_bias": ub})
      if not seq:
        rank = 2
    elif t == "QActivation":
      a = rnd.choice([x for x in AQD if isinstance(x, dict)])
      add(t, "qact", {"activation": a})
    elif t == "QAdaptiveActivation":
      add(t, "qadapt", {"activation": rnd.choice(["quantized_relu", "quantized_bits"]), "total_bits": rnd.randint(3, 8),
                        "symmetric": bool(rnd.randint(0, 1)), "per_channel": bool(rnd.randint(0, 1)),
                        "po2_rounding": bool(rnd.randint(0, 1)), "quantization_delay": rnd.choice([0, 5])})
    elif t == "QBatchNormalization":
      kw = {"center": bool(rnd.randint(0, 1)), "scale": bool(rnd.randint(0, 1))}
      r = rnd.random()
      if r < 0.4:
        kw.update(gamma_quantizer=Qd("quantized_relu_po2", bits=6, max_value=4), beta_quantizer=Qd("quantized_po2", bits=5, max_value=4),
                  mean_quantizer=Qd("quantized_po2", bits=5, max_value=4), variance_quantizer=Qd("quantized_relu_po2", bits=6, max_value=4, quadratic_approximation=True))
      elif r < 0.6:
        # explicitly unquantized statistics (None differs from the constructor's po2 defaults)
        kw.update(beta_quantizer=None, mean_quantizer=None)
      elif r < 0.75:
        kw.update(gamma_quantizer=None, variance_quantizer=None, beta_quantizer=Qd("quantized_bits", bits=8, integer=3, symmetric=1, alpha=1.0),
                  mean_quantizer=Qd("quantized_bits", bits=8, integer=3, symmetric=1, alpha=1.0),
                  inverse_quantizer=Qd("quantized_bits", bits=8, integer=3, symmetric=1, alpha=1.0))
      add(t, "qbn", kw)
    elif t == "QAveragePooling2D":
      if spatial >= 2:
        add(t, "qpool", {"pool_size": [2, 2], "average_quantizer": rnd.choice([None, Qd("quantized_bits", bits=8, integer=0, symmetric=1), Qd("quantized_bits", bits=4, integer=0, symmetric=1)]),
                         "activation": rnd.choice([None, Qd("quantized_bits", bits=6, integer=2, symmetric=1)])})
        spatial //= 2
    elif t == "QGlobalAveragePooling2D":
      add(t, "qgap", {"average_quantizer": rnd.choice([None, Qd("quantized_bits", bits=8, integer=0, symmetric=1)]),
                      "activation": rnd.choice([None, Qd("quantized_relu", bits=6, integer=2)])})
      rank = 2
    elif t == "StockActivation":
      # plain Keras layers inside a quantized model: identifiers Keras itself defines must keep Keras' meaning
      add("Activation", "act", {"activation": rnd.choice(["hard_sigmoid", "hard_sigmoid", "softsign", "elu", "tanh", "sigmoid"])})
    elif t == "StockDense":
      add("Dense", "dense", {"units": rnd.randint(1, 4), "activation": rnd.choice(["hard_sigmoid", None, "relu"]), "use_bias": ub})
    elif t == "QScaleShift":
      add(t, "qss", {"weight_quantizer": rnd.choice([q for q in WQD if q and q["qcls"] in ("quantized_bits", "quantized_po2")]),
                     "bias_quantizer": bq, "use_bias": ub, "activation": rnd.choice([None, Qd("quantized_bits", bits=6, integer=2, symmetric=1)])})
    elif t == "Flatten":
      if rank > 2:
        add(t, "flat", {})
        rank = 2
  if not layers:
    add("QActivation", "qact", {"activation": Qd("quantized_relu", bits=4, integer=1)})
  layers[0]["in"] = [-1]
  for l in layers:
    if l["t"] in ("QDense", "QConv1D", "QConv2D", "QDepthwiseConv2D", "QBatchNormalization", "QSimpleRNN", "QLSTM") and rnd.random() < 0.12:
      l["frozen"] = True
  return {"input": shape, "layers": layers}


def _inst(v):
  """Instantiates quantizer descriptors inside a kwargs value."""
  if isinstance(v, dict) and "qcls" in v:
    from qkeras import quantizer_registry
    return quantizer_registry.lookup_quantizer(v["qcls"])(**v["kw"])
  return v


def build_q(spec):
  """Builds a quantized model from a spec whose kwargs may hold quantizer descriptors."""
  import numpy as np
  import tensorflow as tf
  import qkeras
  L = tf.keras.layers
  inp = L.Input(tuple(spec["input"]), name="in")
  nodes = []
  for l in spec["layers"]:
    kw = {k: _inst(v) for k, v in l["kw"].items()}
    t = l["t"]
    for k in ("kernel_size", "pool_size"):
      if isinstance(kw.get(k), list):
        kw[k] = tuple(kw[k])
    if "mask" in kw:
      kw["mask"] = np.array(kw["mask"])
    if t == "QBidirectional":
      inner = getattr(qkeras, kw.pop("inner"))
      layer = qkeras.QBidirectional(inner(kw.pop("units"), name=l["name"] + "_inner", **kw), name=l["name"])
    elif hasattr(qkeras, t):
      layer = getattr(qkeras, t)(name=l["name"], **kw)
    else:
      layer = getattr(L, t)(name=l["name"], **kw)
    ins = [inp if i == -1 else nodes[i] for i in l["in"]]
    nodes.append(layer(ins if len(ins) > 1 else ins[0]))
    if l.get("frozen"):
      layer.trainable = False
  return tf.keras.Model(inp, nodes[-1])
