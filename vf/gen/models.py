"""Model specifications (TF-free) and their builder (TF side).

spec = {"input": [dims], "layers": [{"t": class name, "name": str, "kw": {...}, "in": [node indices]}]}
node -1 is the model input; the output is the last node.
"""
import collections

WQ = ["quantized_bits(4,0,1)", "quantized_bits(3,1,1,alpha=1.0)", "ternary", "binary(alpha=1.0)", "quantized_po2(4)",
      "quantized_bits(6,2,1,alpha='auto')"]
BQ = ["quantized_bits(4,0,1)", "quantized_bits(8,3,1)", "quantized_po2(4)"]
AQ = ["quantized_relu(4,1)", "quantized_bits(6,2,1)", "quantized_tanh(4)", "binary", "quantized_relu(6,2,negative_slope=0.25)"]

QCLS = {"Dense": "QDense", "Conv1D": "QConv1D", "Conv2D": "QConv2D", "DepthwiseConv2D": "QDepthwiseConv2D",
        "SeparableConv1D": "QSeparableConv1D", "SeparableConv2D": "QSeparableConv2D",
        "SimpleRNN": "QSimpleRNN", "LSTM": "QLSTM", "GRU": "QGRU", "Bidirectional": "QBidirectional",
        "AveragePooling2D": "QAveragePooling2D", "GlobalAveragePooling2D": "QGlobalAveragePooling2D",
        "BatchNormalization": "QBatchNormalization", "Activation": "QActivation", "ReLU": "QActivation",
        "LeakyReLU": "QActivation"}


class _Names(object):
  def __init__(self):
    self.c = collections.Counter()

  def __call__(self, p):
    self.c[p] += 1
    return "%s_%d" % (p, self.c[p])


def float_model_spec(rnd, allow=("sep", "gru", "bidir", "leaky", "gap")):
  """A small sequential / branched float Keras model."""
  nm = _Names()
  mode = rnd.choice(["img", "vec", "seq"])
  shape = {"img": [8, 8, 2], "vec": [6], "seq": [5, 3]}[mode]
  layers = []
  rank = len(shape) + 1
  ch = shape[-1]
  spatial = shape[0]
  cur = -1

  def add(t, prefix, kw, ins=None):
    nonlocal cur
    layers.append({"t": t, "name": nm(prefix), "kw": kw, "in": [cur] if ins is None else ins})
    cur = len(layers) - 1
    return cur

  nl = rnd.randint(2, 6)
  for _ in range(nl):
    act = rnd.choice([None, "relu", "tanh", "sigmoid", "linear"])
    ub = bool(rnd.randint(0, 1))
    if rank == 4:
      opts = ["conv", "conv", "dw", "bn", "act", "relu", "pool", "conv_branch", "flatten", "concat_branch", "dropout"]
      if "sep" in allow:
        opts.append("sep")
      if "leaky" in allow:
        opts.append("leaky")
      if "gap" in allow:
        opts.append("gap")
      t = rnd.choice(opts)
      if t == "conv":
        f = rnd.randint(1, 3)
        add("Conv2D", "conv", {"filters": f, "kernel_size": [rnd.randint(1, 2)] * 2, "padding": "same", "activation": act,
                                "use_bias": ub, "strides": rnd.choice([1, 1, 2]) if spatial >= 4 else 1})
        if layers[-1]["kw"]["strides"] == 2:
          spatial = (spatial + 1) // 2
        ch = f
      elif t == "sep":
        f = rnd.randint(1, 3)
        add("SeparableConv2D", "sep", {"filters": f, "kernel_size": [rnd.randint(1, 2)] * 2, "padding": "same",
                                        "activation": act, "use_bias": ub})
        ch = f
      elif t == "dw":
        add("DepthwiseConv2D", "dw", {"kernel_size": [rnd.randint(1, 2)] * 2, "padding": "same", "activation": act, "use_bias": ub})
      elif t == "bn":
        add("BatchNormalization", "bn", {})
      elif t == "act":
        add("Activation", "act", {"activation": rnd.choice(["relu", "tanh", "sigmoid", "linear"])})
      elif t == "relu":
        add("ReLU", "relu", {})
      elif t == "leaky":
        add("LeakyReLU", "leaky", {"alpha": 0.25})
      elif t == "dropout":
        add("Dropout", "drop", {"rate": 0.25})
      elif t == "pool":
        if spatial >= 2:
          add("AveragePooling2D", "pool", {"pool_size": [2, 2]})
          spatial //= 2
      elif t == "gap":
        add("GlobalAveragePooling2D", "gap", {})
        rank = 2
      elif t == "conv_branch":
        src = cur
        a = add("Conv2D", "conv", {"filters": ch, "kernel_size": [1, 1], "use_bias": ub})
        add("Add", "add", {}, ins=[src, a])
      elif t == "concat_branch":
        src = cur
        a = add("Conv2D", "conv", {"filters": 1, "kernel_size": [1, 1], "use_bias": ub, "activation": act})
        add("Concatenate", "cat", {}, ins=[src, a])
        ch = ch + 1
      elif t == "flatten":
        add("Flatten", "flat", {})
        rank = 2
    elif rank == 3:
      opts = ["conv1d", "rnn", "lstm", "act", "flat"]
      if "gru" in allow:
        opts.append("gru")
      if "bidir" in allow:
        opts.append("bidir")
      if "sep" in allow:
        opts.append("sep1d")
      t = rnd.choice(opts)
      if t == "conv1d":
        add("Conv1D", "conv1d", {"filters": rnd.randint(1, 3), "kernel_size": rnd.randint(1, 2), "padding": "same",
                                  "activation": act, "use_bias": ub})
      elif t == "sep1d":
        add("SeparableConv1D", "sep1d", {"filters": rnd.randint(1, 3), "kernel_size": rnd.randint(1, 2), "padding": "same",
                                          "activation": act, "use_bias": ub})
      elif t in ("rnn", "lstm", "gru"):
        seq = bool(rnd.randint(0, 1))
        add({"rnn": "SimpleRNN", "lstm": "LSTM", "gru": "GRU"}[t], t,
            {"units": rnd.randint(1, 3), "return_sequences": seq, "use_bias": ub})
        if not seq:
          rank = 2
      elif t == "bidir":
        seq = bool(rnd.randint(0, 1))
        add("Bidirectional", "bidir", {"inner": rnd.choice(["LSTM", "SimpleRNN"]), "units": rnd.randint(1, 3),
                                        "return_sequences": seq, "use_bias": ub})
        if not seq:
          rank = 2
      elif t == "act":
        add("Activation", "act", {"activation": rnd.choice(["relu", "tanh"])})
      else:
        add("Flatten", "flat", {})
        rank = 2
    else:
      t = rnd.choice(["dense", "dense", "act", "bn", "relu", "dropout"] + (["leaky"] if "leaky" in allow else []))
      if t == "dense":
        add("Dense", "dense", {"units": rnd.randint(1, 5), "activation": act, "use_bias": ub})
      elif t == "act":
        add("Activation", "act", {"activation": rnd.choice(["relu", "tanh", "softmax"])})
      elif t == "bn":
        add("BatchNormalization", "bn", {})
      elif t == "relu":
        add("ReLU", "relu", {})
      elif t == "leaky":
        add("LeakyReLU", "leaky", {"alpha": 0.25})
      else:
        add("Dropout", "drop", {"rate": 0.25})
  if not layers:
    add("Activation", "act", {"activation": "relu"})
  return {"input": shape, "layers": layers}


def quantization_dict(spec, rnd):
  """A random quantization dictionary for a float spec: per name, per class, both, partial."""
  d = {}
  for l in spec["layers"]:
    cn = l["t"]
    if cn not in QCLS:
      continue
    keys = ([QCLS[cn]] if rnd.random() < 0.5 else []) + ([l["name"]] if rnd.random() < 0.4 else [])
    for key in keys:
      if cn in ("Dense", "Conv1D", "Conv2D", "SeparableConv1D", "SeparableConv2D"):
        e = {"kernel_quantizer": rnd.choice(WQ)}
        if rnd.random() < 0.8:
          e["bias_quantizer"] = rnd.choice(BQ)
        if rnd.random() < 0.3:
          e["activation_quantizer"] = rnd.choice(AQ)
        if rnd.random() < 0.1:
          e.pop("kernel_quantizer")
        if cn.startswith("Separable") and rnd.random() < 0.5:
          e = {"depthwise_quantizer": rnd.choice(WQ), "pointwise_quantizer": rnd.choice(WQ)}
      elif cn == "DepthwiseConv2D":
        e = {"depthwise_quantizer": rnd.choice(WQ)}
        if rnd.random() < 0.8:
          e["bias_quantizer"] = rnd.choice(BQ)
        if rnd.random() < 0.3:
          e["activation_quantizer"] = rnd.choice(AQ)
      elif cn in ("SimpleRNN", "LSTM", "GRU", "Bidirectional"):
        e = {"kernel_quantizer": rnd.choice(WQ), "recurrent_quantizer": rnd.choice(WQ)}
        if rnd.random() < 0.8:
          e["bias_quantizer"] = rnd.choice(BQ)
        if rnd.random() < 0.3:
          e["state_quantizer"] = "quantized_bits(6,2,1)"
        if rnd.random() < 0.2:
          e["activation_quantizer"] = "quantized_tanh(5)"
      elif cn in ("AveragePooling2D", "GlobalAveragePooling2D"):
        e = {"average_quantizer": "quantized_bits(8,0,1)"}
        if rnd.random() < 0.3:
          e["activation_quantizer"] = "quantized_bits(6,2,1)"
      elif cn == "BatchNormalization":
        e = {} if rnd.random() < 0.5 else {"gamma_quantizer": "quantized_bits(6,2,1)", "beta_quantizer": "quantized_bits(6,2,1)"}
      else:  # Activation / ReLU / LeakyReLU
        e = rnd.choice([rnd.choice(AQ), {"relu": rnd.choice(AQ)}, {"relu": "quantized_relu(3,1)", "tanh": "quantized_tanh(3)"},
                        {"leakyrelu": "quantized_relu(4,1,negative_slope=0.25)", "relu": "quantized_relu(4,1)"}])
      if key == "QActivation" or cn in ("Activation", "ReLU", "LeakyReLU"):
        d[key if key != l["name"] else l["name"]] = e
      else:
        d[key] = e
  return d


def build(spec, qkeras_mod=None):
  """Builds the tf_keras functional model of a spec."""
  import tensorflow as tf
  L = tf.keras.layers
  inp = L.Input(tuple(spec["input"]), name="in")
  nodes = []

  def get(i):
    return inp if i == -1 else nodes[i]

  for l in spec["layers"]:
    kw = dict(l["kw"])
    t = l["t"]
    if t == "Bidirectional":
      inner = getattr(L, kw.pop("inner"))
      layer = L.Bidirectional(inner(kw.pop("units"), return_sequences=kw.pop("return_sequences"), use_bias=kw.pop("use_bias"),
                                    name=l["name"] + "_inner"), name=l["name"])
    elif t.startswith("Q") and qkeras_mod is not None and hasattr(qkeras_mod, t):
      for k, v in list(kw.items()):
        if isinstance(v, list) and k in ("kernel_size", "pool_size", "strides"):
          kw[k] = tuple(v)
      layer = getattr(qkeras_mod, t)(name=l["name"], **kw)
    else:
      for k, v in list(kw.items()):
        if isinstance(v, list):
          kw[k] = tuple(v)
      layer = getattr(L, t)(name=l["name"], **kw)
    ins = [get(i) for i in l["in"]]
    nodes.append(layer(ins if len(ins) > 1 else ins[0]))
  return tf.keras.Model(inp, nodes[-1])
