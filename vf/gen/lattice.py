"""Configuration lattices for the quantizer-level properties (TF-free)."""
import itertools
import random


def _alpha_set(tier):
  a = [None, 1.0, 2.0, 0.5, 0.75, 2.0 ** -20]      # 2^-20: steps far below keras' epsilon 1e-7 are still steps
  if tier == "thorough":
    a += [4.0, 0.3, 3.0]
  return a


def fixed_configs(tier, seed, keras3=False):
  """Yields cfg dicts for quantized_bits/linear/relu/tanh/sigmoid."""
  thorough = tier == "thorough"
  out = []
  bits_rng = list(range(1, 9)) + ([10, 12, 16] if thorough else [])
  ints = [0, 1, 2, 3] + ([-2, -1, 5, 8] if thorough else [])
  for cls in ("quantized_bits", "quantized_linear"):
    for bits in bits_rng:
      for integer in ints:
        if cls == "quantized_linear" and integer < 0:
          continue
        for keep in (True, False):
          for sym in (0, 1):
            for alpha in _alpha_set(tier):
              kw = {"bits": bits, "integer": integer, "keep_negative": keep,
                    "symmetric": sym, "alpha": alpha}
              out.append({"cls": cls, "kw": kw})
  for bits in bits_rng:
    for integer in ints:
      if integer < 0:
        continue      # quantized_relu computes K.pow(2, integer) on ints: negative integer bits are not supported
      for slope in (0.0, 0.5, 0.25, 0.125, 0.03125):
        for clip_mode in ("qclip", "none", "ub"):
          kw = {"bits": bits, "integer": integer, "negative_slope": slope}
          if clip_mode == "none":
            kw["is_quantized_clip"] = False
          elif clip_mode == "ub":
            nsb = bits - (1 if slope else 0)
            if nsb <= 0:
              continue
            step = 2.0 ** (integer - nsb)
            m = 2 ** nsb
            # an on-grid bound strictly inside the range, one at the top
            for k in sorted(set([max(1, m // 2), max(1, m - 1), max(1, (3 * m) // 4)])):
              kw2 = dict(kw)
              kw2["is_quantized_clip"] = False
              kw2["relu_upper_bound"] = k * step
              out.append({"cls": "quantized_relu", "kw": kw2})
            if bits in (3, 4, 6):
              # a bound above the largest code (the format's own top code stays the ceiling), and a bound that the
              # default is_quantized_clip=True makes the quantizer ignore altogether
              kw3 = dict(kw, is_quantized_clip=False, relu_upper_bound=3.0 * m * step)
              out.append({"cls": "quantized_relu", "kw": kw3})
              kw4 = dict(kw, relu_upper_bound=max(1, m // 2) * step)
              out.append({"cls": "quantized_relu", "kw": kw4})
            continue
          out.append({"cls": "quantized_relu", "kw": kw})
  # a constant *per-channel* scale (tensor alpha, the form quantized_linear's docstring feeds back from an auto run)
  for bits in (2, 4, 8):
    for integer in (0, 1):
      for keep in (True, False):
        for sym in (0, 1):
          out.append({"cls": "quantized_linear", "kw": {"bits": bits, "integer": integer, "keep_negative": keep, "symmetric": sym},
                      "tensor_alpha": [0.5, 1.0, 4.0]})
  sig_modes = ("hard", "smooth") if not keras3 else ("hard",)
  for bits in bits_rng:
    for sym in (False, True):
      for sig in sig_modes:
        out.append({"cls": "quantized_tanh", "kw": {"bits": bits, "symmetric": sym}, "sigmoid": sig})
        out.append({"cls": "quantized_sigmoid", "kw": {"bits": bits, "symmetric": sym}, "sigmoid": sig})
      out.append({"cls": "quantized_tanh", "kw": {"bits": bits, "symmetric": sym, "use_real_tanh": True}})
      out.append({"cls": "quantized_sigmoid", "kw": {"bits": bits, "symmetric": sym, "use_real_sigmoid": True}})
  # observation-only corner: use_sigmoid relu
  for bits in (3, 5):
    out.append({"cls": "quantized_relu", "kw": {"bits": bits, "integer": 1, "use_sigmoid": 1}})
  rnd = random.Random(seed)
  rnd.shuffle(out)
  if keras3:
    out = out[::6]
  # every 4th configuration is also reached by re-assigning attributes of a live object (vf.qenv.build)
  extra = []
  for c in out[::4]:
    if c["cls"] in ("quantized_bits", "quantized_linear", "quantized_relu") and "use_sigmoid" not in c["kw"] and "tensor_alpha" not in c:
      extra.append(dict(c, kw=dict(c["kw"]), route="mutate"))
  out = out + extra
  rnd.shuffle(out)
  for i, c in enumerate(out):
    c["idx"] = i
    c["seed"] = seed
  return out
