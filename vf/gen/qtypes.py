"""Operand specifications for the qtools type checks C16 / C17.

A *spec* is a small JSON dict naming a qkeras quantizer configuration (or one of
the strings / None that qtools accepts for "no quantizer").  Three things are
derived from it, each independently of the others:

  spec_type(spec)   the documented value lattice of that configuration (vf.ref.types.T)
  build(spec)       the qkeras object, exactly what a layer would hand to qtools
  convert(spec)     build(spec) pushed through QuantizerFactory.make_quantizer, i.e.
                    through <qtools class>.convert_qkeras_quantizer -- the way
                    generate_layer_data_type_map builds every operand

Kinds (the ones the property enumerates): fs / fu fixed point signed / unsigned,
ps / pu power of two signed / unsigned, t ternary, bpm binary +-1, b01 binary 0/1,
float.  This module imports neither tensorflow nor qkeras at import time.
"""
from vf.ref import types as ty

KINDS = ["fs", "fu", "ps", "pu", "t", "bpm", "b01", "float"]


def key(spec):
  return "%s/%s/%s/%s/%s" % (spec["k"], spec["q"], spec.get("bits"), spec.get("int"), spec.get("mve"))


# ------------------------------------------------------------ grids
def po2_mves(bits, signed, rnd=None):
  """max_value settings 2^k for one po2 format: none, the ends of the exponent
  range and one beyond, and small exponents around 0."""
  nsb = bits - (1 if signed else 0)
  emin, emax = -(1 << (nsb - 1)), (1 << (nsb - 1)) - 1
  ks = {emin, emin + 1, -2, -1, 0, 1, 2, 3, emax - 1, emax, emax + 1, emax + 5}
  # |k| <= 60: products of two max values stay exact, finite doubles (the
  # multipliers multiply max values as floats; 2^-1024 * 2^-255 would underflow to 0)
  ks = sorted(k for k in ks if max(emin, -60) <= k <= 60)
  return [None] + ks


def fixed_specs(lo, hi, relu_full=True, small_dup=4):
  out = []
  for b in range(max(lo, 2), hi + 1):
    for i in range(0, b):
      out.append({"k": "fs", "q": "quantized_bits", "bits": b, "int": i})
  for b in range(max(lo, 1), hi + 1):
    for i in range(0, b + 1):
      if not (b == 1 and i == 1):
        out.append({"k": "fu", "q": "quantized_relu", "bits": b, "int": i})
      if b <= small_dup or not relu_full:
        out.append({"k": "fu", "q": "quantized_bits_u", "bits": b, "int": i})
  return out


def po2_specs(lo, hi):
  out = []
  for b in range(max(lo, 2), hi + 1):
    for k in po2_mves(b, True):
      out.append({"k": "ps", "q": "quantized_po2", "bits": b, "mve": k})
  for b in range(max(lo, 1), hi + 1):
    for k in po2_mves(b, False):
      out.append({"k": "pu", "q": "quantized_relu_po2", "bits": b, "mve": k})
  return out


def small_specs():
  return [
      {"k": "t", "q": "ternary"}, {"k": "t", "q": "stochastic_ternary"},
      {"k": "bpm", "q": "binary"}, {"k": "bpm", "q": "stochastic_binary"},
      {"k": "b01", "q": "binary01"}, {"k": "b01", "q": "bernoulli"},
      {"k": "b01", "q": "quantized_relu", "bits": 1, "int": 1},
      {"k": "float", "q": "none"}, {"k": "float", "q": "fp32"}, {"k": "float", "q": "fp16"},
      {"k": "fs", "q": "int8", "bits": 8, "int": 0},
  ]


def tanh_specs(lo, hi):
  return [{"k": "fs", "q": "quantized_tanh", "bits": b, "int": 0} for b in range(max(lo, 2), hi + 1)]


PO2_MAX_BITS = 10      # exponents up to +-2^9; float32 itself ends at 2^+-127 (bits 8 / 9)


def grid(max_bits, with_tanh=True, po2_max_bits=None):
  """Every operand spec with bits <= max_bits (power-of-two types: <= po2_max_bits)."""
  pb = min(max_bits, PO2_MAX_BITS if po2_max_bits is None else po2_max_bits)
  out = fixed_specs(1, max_bits) + po2_specs(1, pb) + small_specs()
  if with_tanh:
    out += tanh_specs(2, max_bits)
  return out


def random_spec(rnd, lo, hi):
  """One spec with lo <= bits <= hi (fixed or po2), or a small kind."""
  r = rnd.random()
  b = rnd.randint(lo, hi)
  if r < 0.3:
    return {"k": "fs", "q": "quantized_bits", "bits": max(b, 2), "int": rnd.randint(0, max(b, 2) - 1)}
  if r < 0.55:
    q = rnd.choice(["quantized_relu", "quantized_bits_u"])
    i = rnd.randint(0, b)
    if b == 1 and i == 1:
      i = 0
    return {"k": "fu", "q": q, "bits": b, "int": i}
  if r < 0.75:
    b = min(max(b, 2), PO2_MAX_BITS + 2)
    return {"k": "ps", "q": "quantized_po2", "bits": b, "mve": rnd.choice(po2_mves(b, True))}
  if r < 0.95:
    b = min(b, PO2_MAX_BITS + 2)
    return {"k": "pu", "q": "quantized_relu_po2", "bits": b, "mve": rnd.choice(po2_mves(b, False))}
  return rnd.choice(small_specs())


def widen(spec, rnd):
  """A spec of the same kind whose lattice contains the lattice of `spec`
  (None when the kind cannot be widened)."""
  k = spec["k"]
  s = dict(spec)
  if spec["q"] in ("int8", "quantized_tanh") or (k == "b01"):
    return None
  if k in ("fs", "fu"):
    how = rnd.choice(["frac", "int", "both"])
    if how in ("frac", "both"):
      s["bits"] += 1                    # one more fractional bit
    if how in ("int", "both"):
      s["bits"] += 1
      s["int"] += 1                     # one more integer bit
    return s
  if k in ("ps", "pu"):
    nsb = spec["bits"] - (1 if k == "ps" else 0)
    emax = (1 << (nsb - 1)) - 1
    if spec.get("mve") is not None and spec["mve"] < emax and rnd.random() < 0.5:
      s["mve"] = spec["mve"] + 1        # higher cap, same exponent field
      return s
    s["bits"] += 1                      # one more exponent bit (cap unchanged)
    return s
  return None


# ------------------------------------------------------------ documented lattices
def spec_type(spec):
  q = spec["q"]
  if q in ("quantized_bits", "int8", "quantized_tanh"):
    return ty.fixed(spec["bits"], spec["int"], 1)
  if q == "quantized_bits_u":
    return ty.fixed(spec["bits"], spec["int"], 0)
  if q == "quantized_relu":
    if spec["bits"] == 1 and spec["int"] == 1:
      return ty.b01()
    return ty.fixed(spec["bits"], spec["int"], 0)
  if q in ("quantized_po2", "quantized_relu_po2"):
    mv = None if spec.get("mve") is None else ty.p2(spec["mve"])
    return ty.po2(spec["bits"], q == "quantized_po2", mv)
  if q in ("ternary", "stochastic_ternary"):
    return ty.ternary()
  if q in ("binary", "stochastic_binary"):
    return ty.bpm()
  if q in ("binary01", "bernoulli"):
    return ty.b01()
  if q in ("none", "fp32"):
    return ty.flt(32)
  if q == "fp16":
    return ty.flt(16)
  raise ValueError(q)


# ------------------------------------------------------------ real objects
def build(spec):
  """The qkeras quantizer object (or the string / None qtools accepts)."""
  from qkeras import quantizers as Q
  q = spec["q"]
  mv = None
  if spec.get("mve") is not None:
    mv = 2.0 ** spec["mve"]
  if q == "quantized_bits":
    return Q.quantized_bits(spec["bits"], spec["int"], keep_negative=True)
  if q == "quantized_bits_u":
    return Q.quantized_bits(spec["bits"], spec["int"], keep_negative=False)
  if q == "quantized_relu":
    return Q.quantized_relu(spec["bits"], spec["int"])
  if q == "quantized_tanh":
    return Q.quantized_tanh(spec["bits"])
  if q == "quantized_po2":
    return Q.quantized_po2(spec["bits"], max_value=mv)
  if q == "quantized_relu_po2":
    return Q.quantized_relu_po2(spec["bits"], max_value=mv)
  if q == "ternary":
    return Q.ternary()
  if q == "stochastic_ternary":
    return Q.stochastic_ternary()
  if q == "binary":
    return Q.binary()
  if q == "stochastic_binary":
    return Q.stochastic_binary()
  if q == "binary01":
    return Q.binary(use_01=True)
  if q == "bernoulli":
    return Q.bernoulli()
  if q == "none":
    return None
  if q in ("fp32", "fp16", "int8"):
    return q
  raise ValueError(q)


def convert(spec, factory=None):
  """qkeras object -> qtools type object, the way qtools does it."""
  if factory is None:
    from qkeras.qtools.quantized_operators import quantizer_factory
    factory = quantizer_factory.QuantizerFactory()
  return factory.make_quantizer(build(spec))


class Operands(object):
  """Per-worker cache: spec -> (documented lattice, converted qtools object).
  The conversion itself is checked once per distinct spec: every extreme (all
  values for small types) of the documented lattice must be a value of the type
  qtools reports after convert_qkeras_quantizer."""

  def __init__(self, ctx, pid):
    from qkeras.qtools.quantized_operators import quantizer_factory
    self.ctx = ctx
    self.pid = pid
    self.factory = quantizer_factory.QuantizerFactory()
    self.cache = {}

  def get(self, spec):
    k = key(spec)
    if k in self.cache:
      return self.cache[k]
    ctx = self.ctx
    t = spec_type(spec)
    base = {"op": "convert", "q": spec["q"], "kind": spec["k"]}
    ok, q = ctx.call(base, convert, spec, self.factory)
    if not ok:
      self.cache[k] = None
      return None
    ctx.count("conversions_checked")
    r = ty.from_reported(q)
    bad = None
    if t.kind == "float" or r.kind == "float":
      if t.kind != r.kind:
        bad = ("kind", None)
      elif r.bits < t.bits:
        bad = ("float_bits", None)
    elif not ty.is_empty(t):
      vals = ty.enumerate_values(t) if (ty.size(t) or 0) <= 64 else ty.extremes(t)
      for v in vals:
        ctx.evals(1)
        why = ty.why_not(r, v)
        if why is not None:
          bad = (why, v)
          break
      if bad is None and ty.size(r) is not None and ty.size(r) > ty.size(t):
        ctx.observe("conversion_reports_wider_type_than_documented",
                    {"spec": spec, "reported": ty.fields(q)})
    if bad is not None:
      ctx.violation(dict(base, what="conversion_loses_values", fail=bad[0]),
                    "%s: documented lattice %s, qtools reports %s; %s not representable (%s)" % (
                        spec["q"], ty.describe(t), ty.describe(r), ty.fmt(bad[1]), bad[0]),
                    {"spec": spec, "reported": ty.fields(q), "value": ty.fmt(bad[1])})
    self.cache[k] = (t, q)
    return self.cache[k]
