"""Generator of quantizer call strings over the literal grammar (TF-free)."""
import random

# literal classes of the statement's grammar that contain no separator characters
CORE = ["int", "neg_int", "plus_int", "zero", "float", "neg_float", "dot_float", "float_dot", "sci", "sci_neg",
        "sci_cap", "neg_zero", "true", "false", "none", "sq_string", "dq_string", "auto", "auto_po2",
        # the rest of Python's float grammar: explicit + exponent, fraction with exponent, leading dot / trailing dot
        # with exponent, the repr() of large and tiny magnitudes
        "sci_plus", "sci_frac", "sci_dot", "sci_cap_sign", "repr_big", "repr_tiny"]
# classes the statement also names (number lists, strings in general) but that carry separators
EXT = ["list_commas", "list_commas_space", "list_single", "string_with_comma", "string_with_space",
       "string_with_paren", "empty_string", "string_with_equals", "nested_call", "tuple", "hex_int", "underscore_int"]


def literal(kind, rnd):
  if kind == "int":
    return str(rnd.randint(1, 64))
  if kind == "neg_int":
    return str(-rnd.randint(1, 64))
  if kind == "plus_int":
    return "+" + str(rnd.randint(1, 9))
  if kind == "zero":
    return "0"
  if kind == "float":
    return repr(round(rnd.uniform(0, 8), rnd.randint(1, 4)))
  if kind == "neg_float":
    return repr(-round(rnd.uniform(0, 8), 3))
  if kind == "dot_float":
    return "." + str(rnd.randint(1, 99))
  if kind == "float_dot":
    return str(rnd.randint(0, 9)) + "."
  if kind == "sci":
    return "%de%d" % (rnd.randint(1, 9), rnd.randint(0, 5))
  if kind == "sci_neg":
    return "-%d.%de-%d" % (rnd.randint(1, 9), rnd.randint(0, 9), rnd.randint(1, 5))
  if kind == "sci_cap":
    return "%dE%d" % (rnd.randint(1, 9), rnd.randint(0, 5))
  if kind == "sci_plus":
    return "%s%de+%d" % (rnd.choice(["", "-"]), rnd.randint(1, 9), rnd.randint(0, 16))
  if kind == "sci_frac":
    return "%d.%de%s%d" % (rnd.randint(1, 9), rnd.randint(0, 99), rnd.choice(["", "+", "-"]), rnd.randint(0, 6))
  if kind == "sci_dot":
    return rnd.choice([".%de%d" % (rnd.randint(1, 9), rnd.randint(0, 3)), "%d.e%d" % (rnd.randint(1, 9), rnd.randint(0, 3))])
  if kind == "sci_cap_sign":
    return "%d.%dE%s%d" % (rnd.randint(1, 9), rnd.randint(0, 9), rnd.choice(["+", "-"]), rnd.randint(1, 5))
  if kind == "repr_big":
    return repr(float(rnd.randint(1, 9)) * 10.0 ** rnd.randint(16, 22))
  if kind == "repr_tiny":
    return repr(float(rnd.randint(1, 9)) * 10.0 ** -rnd.randint(5, 12))
  if kind == "neg_zero":
    return "-0.0"
  if kind == "true":
    return "True"
  if kind == "false":
    return "False"
  if kind == "none":
    return "None"
  if kind == "sq_string":
    return "'" + rnd.choice(["rnd", "floor", "abc", "x_1", "auto", "hard"]) + "'"
  if kind == "dq_string":
    return '"' + rnd.choice(["rnd", "floor", "abc", "x_1", "auto_po2", "real"]) + '"'
  if kind == "auto":
    return "'auto'"
  if kind == "auto_po2":
    return "'auto_po2'"
  if kind == "list_commas":
    return "[" + ",".join(str(rnd.randint(0, 4)) for _ in range(rnd.randint(2, 3))) + "]"
  if kind == "list_commas_space":
    return "[" + ", ".join(str(rnd.randint(0, 4)) for _ in range(rnd.randint(2, 3))) + "]"
  if kind == "list_single":
    return "[" + str(rnd.randint(0, 4)) + "]"
  if kind == "string_with_comma":
    return "'a,b'"
  if kind == "string_with_space":
    return "'a b'"
  if kind == "string_with_paren":
    return "'a(b'"
  if kind == "empty_string":
    return "''"
  if kind == "string_with_equals":
    return "'a=b'"
  if kind == "nested_call":
    return "abs(-3)"
  if kind == "tuple":
    return "(1,2)"
  if kind == "hex_int":
    return "0x10"
  if kind == "underscore_int":
    return "1_000"
  raise ValueError(kind)


def call_string(rnd, kinds, name="stub", kwnames=("a", "b", "alpha", "x1", "scale_axis")):
  """Returns (text, [(literal class, is keyword)], well_ordered)."""
  n = rnd.randint(0, 5)
  items = []
  npos = rnd.randint(0, n)
  used = set()
  for i in range(n):
    kind = rnd.choice(kinds)
    lit = literal(kind, rnd)
    if i < npos:
      items.append((None, lit, kind))
    else:
      k = rnd.choice([x for x in kwnames if x not in used] or ["zz%d" % i])
      used.add(k)
      items.append((k, lit, kind))
  ws = lambda: rnd.choice(["", "", "", " ", "  "])  # noqa: E731
  parts = []
  for k, lit, kind in items:
    if k is None:
      parts.append(ws() + lit + ws())
    else:
      parts.append(ws() + k + ws() + "=" + ws() + lit + ws())
  text = name + "(" + ",".join(parts) + ")"
  return text, [(kind, k is not None) for k, lit, kind in items]


def misordered(rnd, kinds, name="stub"):
  a = literal(rnd.choice(kinds), rnd)
  b = literal(rnd.choice(kinds), rnd)
  c = literal(rnd.choice(kinds), rnd)
  return rnd.choice(["%s(a=%s,%s)" % (name, a, b), "%s(%s,b=%s,%s)" % (name, a, b, c),
                     "%s(x1=%s, %s, b=%s)" % (name, a, b, c)])


HOSTILE = [
    "__import__('os').system('echo {M} > {C}')",
    "quantized_bits(__import__('os').system('echo {M} > {C}'))",
    "quantized_bits(bits=__import__('os').system('echo {M} > {C}'))",
    "quantized_bits(8, eval(\"open('{C}','w').write('{M}')\"))",
    "quantized_bits(open('{C}','w').write('{M}'))",
    "eval(\"open('{C}','w').write('{M}')\")",
    "exec(\"open('{C}','w').write('{M}')\")",
    "quantized_bits(8).__class__.__init__.__globals__['os'].system('echo {M} > {C}')",
    "quantized_bits(alpha=[x for x in (open('{C}','w'),)][0].write('{M}'))",
    "quantized_bits(bits=(lambda: open('{C}','w').write('{M}'))())",
    "quantized_bits(f\"{{open('{C}','w').write('{M}')}}\")",
    "quantized_relu(4,0,__import__('subprocess').Popen(['touch','{C}']))",
    "binary(alpha=__import__('builtins').exec(\"open('{C}','w').write('{M}')\"))",
    "os.system('echo {M} > {C}')",
    "compile(\"open('{C}','w').write('{M}')\",'s','exec')",
    "quantized_po2(4, max_value=globals()['__builtins__']['open']('{C}','w'))",
    "ternary(threshold=getattr(__import__('os'),'system')('echo {M} > {C}'))",
    "quantized_bits(8,0,1);open('{C}','w').write('{M}')",
    "quantized_bits(8,0,1) if open('{C}','w').write('{M}') else 0",
    "quantized_bits(**{{'bits': open('{C}','w').write('{M}')}})",
]
