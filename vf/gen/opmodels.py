"""Generator of small quantized Keras models for the qtools count / energy check (C19).

`gen_spec(rnd)` is pure Python (no TensorFlow): it returns a JSON-serialisable description of a
model (list of nodes in topological order) together with the per-sample tensor shapes and the
loop-nest operation counts computed by `vf.ref.ops`.  `build(spec)` turns a description into a
tf_keras functional model made of QKeras / Keras layers; it cross-checks every tensor shape of the
description against the shape TensorFlow inferred while tracing the real layer.
"""
from vf.ref import ops

WQ = [
    "quantized_bits(4,0,1,alpha=1.0)", "quantized_bits(4,0,1,alpha=1.0)",
    "quantized_bits(8,2,1,alpha=1.0)", "quantized_bits(6,1,1,alpha=1.0)",
    "quantized_bits(3,0,0,alpha=1.0)", "quantized_bits(4,0,1,alpha='auto_po2')",
    "quantized_bits(8,0,1,alpha='auto_po2')",
    "quantized_po2(4)", "quantized_po2(4,max_value=2)", "quantized_po2(5,max_value=1)",
    "binary(alpha=1.0)", "binary(use_01=True,alpha=1.0)", "ternary(alpha=1.0)",
]
BQ = ["quantized_bits(4,0,1)", "quantized_bits(4,0,1)", "quantized_bits(8,3,1)", "quantized_po2(4)",
      "quantized_bits(16,7,1)", None]
AQ = ["quantized_relu(4,1)", "quantized_relu(4,1)", "quantized_relu(8,3)", "quantized_relu(6,2)",
      "quantized_bits(6,2,1)", "quantized_bits(8,0,1)", "quantized_relu_po2(4)", "quantized_po2(4)",
      "binary(alpha=1.0)", "ternary(alpha=1.0)", "quantized_tanh(5)"]
AQ_FIXED = ["quantized_relu(4,1)", "quantized_relu(8,3)", "quantized_relu(6,2)", "quantized_bits(6,2,1)",
            "quantized_bits(8,0,1)"]
AVGQ = ["quantized_bits(4,0,1)", "quantized_bits(8,0,1)", "quantized_bits(6,1,0)"]
SRCQ = ["quantized_bits(8,0,1)", "quantized_bits(8,0,1)", "quantized_bits(4,1,1)", "quantized_bits(16,7,1)",
        "quantized_relu(8,0)", None]
MERGES = ["Add", "Add", "Add", "Concatenate", "Concatenate", "Multiply", "Maximum", "Average", "Subtract"]
ELEMENTWISE = ("Add", "Multiply", "Maximum", "Minimum", "Average", "Subtract")

CLASS_OF = {
    ("conv", 2, True): "QConv2D", ("conv", 2, False): "Conv2D",
    ("conv", 1, True): "QConv1D", ("conv", 1, False): "Conv1D",
    ("dw", 2, True): "QDepthwiseConv2D", ("dw", 2, False): "DepthwiseConv2D",
    ("dense", 0, True): "QDense", ("dense", 0, False): "Dense",
    ("avgpool", 2, True): "QAveragePooling2D", ("avgpool", 2, False): "AveragePooling2D",
    ("gap", 2, True): "QGlobalAveragePooling2D", ("gap", 2, False): "GlobalAveragePooling2D",
}


class _B(object):
  """Incremental description builder."""

  def __init__(self, rnd):
    self.rnd = rnd
    self.nodes = []
    self.shape = {}
    self.n = 0

  def name(self, prefix):
    self.n += 1
    return "%s%d" % (prefix, self.n)

  def add(self, node, shape):
    node["shape"] = [int(s) for s in shape]
    self.nodes.append(node)
    self.shape[node["name"]] = node["shape"]
    return node["name"]

  # ------------------------------------------------------------------ plumbing
  def input(self, shape):
    return self.add({"name": self.name("in"), "kind": "input", "cls": "InputLayer", "in": []}, shape)

  def act(self, x, pool=None, q=None):
    q = q or self.rnd.choice(pool or AQ)
    return self.add({"name": self.name("act"), "kind": "act", "cls": "QActivation", "q": q, "in": [x]},
                    self.shape[x])

  def maybe_act(self, x, p=0.7, pool=None):
    return self.act(x, pool) if self.rnd.random() < p else x

  def flatten(self, x):
    return self.add({"name": self.name("flat"), "kind": "flatten", "cls": "Flatten", "in": [x]},
                    [ops.numel(self.shape[x])])

  def _wq(self, quantized, use_bias):
    """Weight / bias quantizer texts; no bias quantizer is configured for a layer without bias."""
    if not quantized:
      return None, None
    wq, bq = self.rnd.choice(WQ), self.rnd.choice(BQ)
    return wq, (bq if use_bias else None)

  # ------------------------------------------------------------------ counted layers
  def conv(self, x, filters=None, force=None):
    rnd = self.rnd
    shp = self.shape[x]
    rank = len(shp) - 1
    spatial, cin = shp[:-1], shp[-1]
    force = force or {}
    quantized = rnd.random() < 0.85
    square = rnd.random() < 0.6
    k0 = rnd.randint(1, 5)
    kernel = [k0 if square else rnd.randint(1, 5) for _ in range(rank)]
    dil = [1] * rank
    strides = [1] * rank
    if rnd.random() < 0.25:
      d0 = 2
      dil = [d0] * rank
    elif rnd.random() < 0.6:
      s0 = rnd.randint(1, 3)
      strides = [s0 if rnd.random() < 0.7 else rnd.randint(1, 3) for _ in range(rank)]
    pads = ["valid", "same"] + (["causal"] if rank == 1 else [])
    padding = force.get("padding") or rnd.choice(pads)
    if "strides" in force:
      strides = [force["strides"]] * rank
    for ax in range(rank):
      if padding == "valid" and (kernel[ax] - 1) * dil[ax] + 1 > spatial[ax]:
        if (kernel[ax] - 1) + 1 <= spatial[ax] and rnd.random() < 0.5:
          dil = [1] * rank
        else:
          padding = "same"
    if padding == "valid":
      for ax in range(rank):
        if (kernel[ax] - 1) * dil[ax] + 1 > spatial[ax]:
          padding = "same"
    groups = 1
    cout = filters or rnd.randint(1, 8)
    if filters is None and rnd.random() < 0.12:
      cands = [g for g in (2, 3, 4) if cin % g == 0]
      if cands:
        groups = rnd.choice(cands)
        cout = groups * rnd.randint(1, max(1, 8 // groups))
    use_bias = rnd.random() < 0.8
    wq, bq = self._wq(quantized, use_bias)
    r = ops.conv(spatial, cin, cout, kernel, strides, dil, padding, groups)
    node = {"name": self.name("conv"), "kind": "conv", "rank": rank, "quantized": quantized,
            "cls": CLASS_OF[("conv", rank, quantized)], "in": [x], "filters": cout, "kernel": kernel,
            "strides": strides, "dilation": dil, "padding": padding, "groups": groups,
            "use_bias": use_bias, "wq": wq, "bq": bq, "expect": r, "in_shape": list(shp)}
    return self.add(node, r["out_spatial"] + [cout])

  def dw(self, x):
    rnd = self.rnd
    shp = self.shape[x]
    spatial, cin = shp[:-1], shp[-1]
    quantized = rnd.random() < 0.85
    k0 = rnd.randint(1, 4)
    kernel = [k0, k0 if rnd.random() < 0.7 else rnd.randint(1, 4)]
    s0 = rnd.randint(1, 3) if rnd.random() < 0.5 else 1
    strides = [s0, s0]
    padding = rnd.choice(["valid", "same"])
    for ax in range(2):
      if padding == "valid" and kernel[ax] > spatial[ax]:
        padding = "same"
    use_bias = rnd.random() < 0.8
    wq, bq = self._wq(quantized, use_bias)
    # qtools documents (asserts) depth_multiplier == 1 on its auto_po2 path
    dm = 2 if (rnd.random() < 0.08 and "auto_po2" not in str(wq)) else 1
    r = ops.depthwise(spatial, cin, dm, kernel, strides, [1, 1], padding)
    node = {"name": self.name("dw"), "kind": "dw", "rank": 2, "quantized": quantized,
            "cls": CLASS_OF[("dw", 2, quantized)], "in": [x], "kernel": kernel, "strides": strides,
            "dilation": [1, 1], "padding": padding, "depth_multiplier": dm,
            "use_bias": use_bias, "wq": wq, "bq": bq, "expect": r, "in_shape": list(shp)}
    return self.add(node, r["out_spatial"] + [cin * dm])

  def dense(self, x, units=None):
    rnd = self.rnd
    shp = self.shape[x]
    quantized = rnd.random() < 0.85
    units = units or rnd.randint(1, 8)
    use_bias = rnd.random() < 0.8
    wq, bq = self._wq(quantized, use_bias)
    r = ops.dense(shp[-1], units)
    node = {"name": self.name("dense"), "kind": "dense", "rank": 0, "quantized": quantized,
            "cls": CLASS_OF[("dense", 0, quantized)], "in": [x], "units": units,
            "use_bias": use_bias, "wq": wq, "bq": bq, "expect": r, "in_shape": list(shp)}
    return self.add(node, [units])

  def avgpool(self, x):
    rnd = self.rnd
    shp = self.shape[x]
    spatial, c = shp[:-1], shp[-1]
    quantized = rnd.random() < 0.5
    p0 = rnd.randint(1, min(3, min(spatial)))
    pool = [p0, p0 if rnd.random() < 0.7 else rnd.randint(1, min(3, spatial[1]))]
    strides = list(pool) if rnd.random() < 0.7 else [rnd.randint(1, 3)] * 2
    padding = rnd.choice(["valid", "valid", "same"])
    r = ops.avg_pool(spatial, c, pool, strides, padding)
    node = {"name": self.name("pool"), "kind": "avgpool", "rank": 2, "quantized": quantized,
            "cls": CLASS_OF[("avgpool", 2, quantized)], "in": [x], "pool": pool, "strides": strides,
            "padding": padding, "aq": rnd.choice(AVGQ) if quantized else None, "expect": r,
            "in_shape": list(shp)}
    return self.add(node, r["out_spatial"] + [c])

  def gap(self, x):
    rnd = self.rnd
    shp = self.shape[x]
    quantized = rnd.random() < 0.5
    r = ops.global_avg_pool(shp[:-1], shp[-1])
    node = {"name": self.name("gap"), "kind": "gap", "rank": 2, "quantized": quantized,
            "cls": CLASS_OF[("gap", 2, quantized)], "in": [x],
            "aq": rnd.choice(AVGQ) if quantized else None, "expect": r, "in_shape": list(shp)}
    return self.add(node, [shp[-1]])

  def maxpool(self, x):
    rnd = self.rnd
    shp = self.shape[x]
    spatial, c = shp[:-1], shp[-1]
    p = rnd.randint(1, min(3, min(spatial)))
    padding = rnd.choice(["valid", "same"])
    out = ops.max_pool_shape(spatial, [p, p], [p, p], padding)
    node = {"name": self.name("mp"), "kind": "maxpool", "cls": "MaxPooling2D", "in": [x], "pool": [p, p],
            "strides": [p, p], "padding": padding}
    return self.add(node, out + [c])

  def merge(self, xs, cls):
    shapes = [self.shape[x] for x in xs]
    if cls == "Concatenate":
      out = list(shapes[0][:-1]) + [sum(s[-1] for s in shapes)]
      r = {"mac": 0, "mac_real": 0, "positions": 1}
    else:
      out = list(shapes[0])
      r = ops.elementwise(out)
    node = {"name": self.name("merge"), "kind": "merge", "cls": cls, "in": list(xs), "expect": r,
            "in_shape": [list(s) for s in shapes]}
    return self.add(node, out)


def _residual(b, x, rank):
  rnd = b.rnd
  cls = rnd.choice(MERGES)
  c = b.shape[x][-1]
  filters = c if cls in ELEMENTWISE else None
  y = b.conv(x, filters=filters, force={"padding": "same", "strides": 1})
  y = b.maybe_act(y, 0.6, AQ_FIXED)
  xs = [x, y]
  if cls == "Add" and rnd.random() < 0.15:
    y2 = b.conv(x, filters=c, force={"padding": "same", "strides": 1})
    xs.append(y2)
  return b.merge(xs, cls)


def _family_conv2d(b):
  rnd = b.rnd
  shape = [rnd.randint(4, 12), rnd.randint(4, 12), rnd.randint(1, 8)]
  two_inputs = rnd.random() < 0.1
  x = b.input(shape)
  if rnd.random() < 0.9 or two_inputs:
    x = b.act(x)
  if two_inputs:
    x2 = b.act(b.input(shape))
    x = b.merge([x, x2], rnd.choice(["Add", "Concatenate"]))
  taps = []
  for _ in range(rnd.randint(1, 3)):
    kind = rnd.choices(["conv", "dw", "avgpool", "maxpool", "res"], [4, 2, 1.2, 0.5, 2.2])[0]
    spatial = b.shape[x][:-1]
    if kind in ("avgpool", "maxpool") and min(spatial) < 2:
      kind = "conv"
    if kind == "conv":
      x = b.maybe_act(b.conv(x))
    elif kind == "dw":
      x = b.maybe_act(b.dw(x))
    elif kind == "avgpool":
      x = b.avgpool(x)
    elif kind == "maxpool":
      x = b.maxpool(x)
    else:
      x = b.maybe_act(_residual(b, x, 2), 0.5)
    taps.append(x)
  head = rnd.choices(["flatten_dense", "gap_dense", "gap", "none"], [45, 20, 10, 25])[0]
  if head == "flatten_dense":
    x = b.dense(b.flatten(x))
  elif head == "gap_dense":
    x = b.dense(b.gap(x))
  elif head == "gap":
    x = b.gap(x)
  if rnd.random() < 0.3:
    x = b.act(x)
  outs = [x]
  if rnd.random() < 0.1 and taps and taps[0] != x:
    outs.append(taps[0])
  return outs


def _family_conv1d(b):
  rnd = b.rnd
  x = b.input([rnd.randint(4, 12), rnd.randint(1, 8)])
  if rnd.random() < 0.9:
    x = b.act(x)
  for _ in range(rnd.randint(1, 2)):
    x = b.maybe_act(b.conv(x))
  if rnd.random() < 0.6:
    x = b.dense(b.flatten(x))
  return [x]


def _family_dense(b):
  rnd = b.rnd
  f = 1 if rnd.random() < 0.06 else rnd.randint(2, 16)
  two_inputs = rnd.random() < 0.12
  x = b.act(b.input([f]))
  if two_inputs:
    x2 = b.act(b.input([f]))
    x = b.merge([x, x2], rnd.choice(["Add", "Concatenate", "Multiply"]))
  u = rnd.randint(1, 8)
  d1 = b.maybe_act(b.dense(x, u), 0.7)
  if rnd.random() < 0.4:
    d2 = b.maybe_act(b.dense(x, u), 0.7, AQ_FIXED)
    d1 = b.merge([d1, d2], rnd.choice(MERGES))
    d1 = b.maybe_act(d1, 0.4)
  outs = [d1]
  if rnd.random() < 0.6:
    outs = [b.dense(d1)]
    if rnd.random() < 0.1:
      outs.append(d1)
  return outs


def _family_narrow_merge(b):
  """Directed: element-wise merge of a ternary and a binary activation (1-2 bit operand types)."""
  rnd = b.rnd
  f = rnd.randint(2, 16)
  qs = ["ternary(alpha=1.0)", "binary(alpha=1.0)"]
  rnd.shuffle(qs)
  x1 = b.act(b.input([f]), q=qs[0])
  x2 = b.act(b.input([f]), q=qs[1])
  m = b.merge([x1, x2], rnd.choice(["Multiply", "Multiply", "Add", "Concatenate"]))
  return [b.dense(m)]


FAMILIES = {"conv2d": _family_conv2d, "conv1d": _family_conv1d, "dense": _family_dense,
            "narrow_merge": _family_narrow_merge}


def gen_spec(rnd, family=None):
  """Random model description; shapes and loop-nest counts are attached to the nodes."""
  for _attempt in range(50):
    b = _B(rnd)
    fam = family or rnd.choices(["conv2d", "conv1d", "dense"], [6, 2, 2])[0]
    try:
      outs = FAMILIES[fam](b)
    except ops.RefError:
      continue
    ins = [n["name"] for n in b.nodes if n["kind"] == "input"]
    consumers = {}
    for n in b.nodes:
      for i in n["in"]:
        consumers.setdefault(i, []).append(n["name"])
    if any(i not in consumers for i in ins):
      continue
    return {"family": fam, "nodes": b.nodes, "inputs": ins, "outputs": outs,
            "src_q": [rnd.choice(SRCQ) for _ in ins]}
  raise ops.RefError("no model generated")


def uses_auto_po2(spec):
  return any("auto_po2" in str(n.get("wq")) for n in spec["nodes"])


# ---------------------------------------------------------------------------- TF side
def _q(s):
  """Quantizer object from its text (the generator's own fixed vocabulary)."""
  if s is None:
    return None
  from qkeras import quantizers as Q
  name, args = s.split("(", 1)
  args = args.rstrip(")")
  pos, kw = [], {}
  for a in [t for t in args.split(",") if t.strip()]:
    if "=" in a:
      k, v = a.split("=")
      kw[k.strip()] = _lit(v.strip())
    else:
      pos.append(_lit(a.strip()))
  return getattr(Q, name)(*pos, **kw)


def _lit(v):
  if v in ("True", "False"):
    return v == "True"
  if v.startswith("'"):
    return v.strip("'")
  return float(v) if "." in v else int(v)


def build(spec):
  """Returns (model, {node name: keras layer}).  Raises ops.RefError if TensorFlow's traced
  shape of any tensor differs from the description (the reference geometry would be wrong)."""
  import tensorflow as tf
  import qkeras
  L = tf.keras.layers
  tensors = {}
  layers = {}
  for n in spec["nodes"]:
    kind, name = n["kind"], n["name"]
    xs = [tensors[i] for i in n["in"]]
    if kind == "input":
      t = L.Input(tuple(n["shape"]), name=name)
      tensors[name] = t
      continue
    if kind == "act":
      layer = qkeras.QActivation(_q(n["q"]), name=name)
    elif kind == "flatten":
      layer = L.Flatten(name=name)
    elif kind == "maxpool":
      layer = L.MaxPooling2D(tuple(n["pool"]), strides=tuple(n["strides"]), padding=n["padding"], name=name)
    elif kind == "conv":
      kw = dict(strides=tuple(n["strides"]), padding=n["padding"], dilation_rate=tuple(n["dilation"]),
                use_bias=n["use_bias"], name=name)
      if n["groups"] != 1:
        kw["groups"] = n["groups"]
      if n["quantized"]:
        kw.update(kernel_quantizer=_q(n["wq"]), bias_quantizer=_q(n["bq"]))
      cls = getattr(qkeras, n["cls"]) if n["quantized"] else getattr(L, n["cls"])
      layer = cls(n["filters"], tuple(n["kernel"]), **kw)
    elif kind == "dw":
      kw = dict(strides=tuple(n["strides"]), padding=n["padding"], depth_multiplier=n["depth_multiplier"],
                use_bias=n["use_bias"], name=name)
      if n["quantized"]:
        kw.update(depthwise_quantizer=_q(n["wq"]), bias_quantizer=_q(n["bq"]))
        layer = qkeras.QDepthwiseConv2D(tuple(n["kernel"]), **kw)
      else:
        layer = L.DepthwiseConv2D(tuple(n["kernel"]), **kw)
    elif kind == "dense":
      if n["quantized"]:
        layer = qkeras.QDense(n["units"], use_bias=n["use_bias"], kernel_quantizer=_q(n["wq"]),
                              bias_quantizer=_q(n["bq"]), name=name)
      else:
        layer = L.Dense(n["units"], use_bias=n["use_bias"], name=name)
    elif kind == "avgpool":
      if n["quantized"]:
        layer = qkeras.QAveragePooling2D(tuple(n["pool"]), strides=tuple(n["strides"]), padding=n["padding"],
                                         average_quantizer=_q(n["aq"]), name=name)
      else:
        layer = L.AveragePooling2D(tuple(n["pool"]), strides=tuple(n["strides"]), padding=n["padding"], name=name)
    elif kind == "gap":
      if n["quantized"]:
        layer = qkeras.QGlobalAveragePooling2D(average_quantizer=_q(n["aq"]), name=name)
      else:
        layer = L.GlobalAveragePooling2D(name=name)
    elif kind == "merge":
      layer = getattr(L, n["cls"])(name=name)
    else:
      raise ValueError(kind)
    t = layer(xs if kind == "merge" else xs[0])
    got = [int(d) for d in t.shape[1:]]
    if got != n["shape"]:
      raise ops.RefError("reference shape %r != traced shape %r for %s %s" % (n["shape"], got, n["cls"], name))
    if layer.__class__.__name__ != n["cls"]:
      raise ops.RefError("class %s != %s" % (layer.__class__.__name__, n["cls"]))
    tensors[name] = t
    layers[name] = layer
  model = tf.keras.Model([tensors[i] for i in spec["inputs"]], [tensors[o] for o in spec["outputs"]])
  return model, layers
