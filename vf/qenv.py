"""TF-side helpers shared by the quantizer-level monitors."""
import contextlib

import numpy as np
import tensorflow as tf

from qkeras import quantizers as Q
from qkeras import quantizer_registry


def get_class(name):
  return quantizer_registry.lookup_quantizer(name)


# Attributes the repository itself re-assigns on live quantizer objects (QAdaptiveActivation.build sets
# bits / integer / alpha / symmetric / keep_negative / negative_slope; _set_trainable_parameter, called by
# every Q layer, sets alpha and symmetric; quantized_linear documents its attributes as settable).  A
# configuration reached that way is the same configuration as one passed to the constructor.
MUTABLE = {
    "quantized_bits": ("bits", "integer", "keep_negative", "symmetric", "alpha"),
    # quantized_linear: bits / integer / keep_negative are read-only properties; `alpha` is listed as
    # modifiable but a constant alpha assigned after construction does not reach quantization_scale
    # (observation, DESIGN section 11) - only `symmetric` is re-assigned here
    "quantized_linear": ("symmetric",),
    "quantized_relu": ("bits", "integer", "negative_slope"),
    "binary": ("alpha",), "ternary": ("alpha",),
}
ROUTES = {"n": 0, "fallback": 0}


def _donor_value(attr, v, rnd):
  if attr == "bits":
    return v + rnd.choice([1, 2, 4]) if v < 3 or rnd.random() < 0.5 else v - rnd.choice([1, 2])
  if attr == "integer":
    return rnd.choice([i for i in (0, 1, 2, 3) if i != v])
  if attr == "keep_negative":
    return not v
  if attr == "symmetric":
    return 0 if v else 1
  if attr == "alpha":
    return rnd.choice([a for a in (None, 1.0, 2.0, 0.5) if a != v])
  if attr == "negative_slope":
    return 0.25 if not v else 0.0
  raise ValueError(attr)


def _warm(q, x=None):
  """Use the object before it is modified, so that anything it caches is filled."""
  try:
    q(tf.constant(np.asarray([[-1.5, -0.3, 0.0, 0.2, 0.9, 3.0]] if x is None else x, dtype=np.float32)))
  except Exception:      # pylint: disable=broad-except
    pass
  for name in ("max", "min", "range"):
    try:
      getattr(q, name)()
    except Exception:    # pylint: disable=broad-except
      pass


def build(cfg):
  """cfg["route"]: None / "ctor" - constructor arguments; "mutate" - built with other values for some
  re-assignable attributes, used once, then assigned the target values; "trainable" - built with
  alpha=None, used once, then `_set_trainable_parameter()` (target alpha must be "auto_po2")."""
  kw = dict(cfg["kw"])
  cls = get_class(cfg["cls"])
  route = cfg.get("route")
  if route == "mutate" and cfg["cls"] in MUTABLE:
    import random as _random
    rnd = _random.Random(cfg.get("seed", 0) * 1000003 + cfg.get("idx", 0))
    # a data-dependent alpha is re-assigned only on binary / ternary, whose constructors derive nothing
    # from it; quantized_bits' constructor also switches symmetric / freeze_scale for "auto*", which is
    # what _set_trainable_parameter (route "trainable") repeats and a bare assignment does not
    attrs = [a for a in MUTABLE[cfg["cls"]] if a in kw and
             (not isinstance(kw[a], str) or cfg["cls"] in ("binary", "ternary"))]
    pick = rnd.sample(attrs, rnd.randint(1, len(attrs))) if attrs else []
    donor = dict(kw)
    for a in pick:
      donor[a] = _donor_value(a, kw[a] if not isinstance(kw[a], str) else None, rnd)
    try:
      q = cls(**donor)
      _warm(q, cfg.get("warm"))
      for a in pick:
        setattr(q, a, kw[a])
      ROUTES["n"] += 1
      return q
    except Exception:    # pylint: disable=broad-except
      ROUTES["fallback"] += 1      # the donor configuration itself is not constructible
      return cls(**kw)
  if route == "trainable":
    assert kw.get("alpha") == "auto_po2"
    donor = dict(kw, alpha=None)
    if "symmetric" in donor:
      donor["symmetric"] = 0
    q = cls(**donor)
    _warm(q, cfg.get("warm"))
    q._set_trainable_parameter()       # pylint: disable=protected-access
    ROUTES["n"] += 1
    return q
  return cls(**kw)


@contextlib.contextmanager
def sigmoid_mode(mode):
  mode = mode or "hard"
  if mode != "hard":
    Q.set_internal_sigmoid(mode)
  try:
    yield
  finally:
    if mode != "hard":
      Q.set_internal_sigmoid("hard")


def call(q, x):
  """Eager call, float32 numpy in / out."""
  y = q(tf.constant(np.asarray(x, dtype=np.float32)))
  return np.asarray(y.numpy() if hasattr(y, "numpy") else y, dtype=np.float32)


def call_graph(q, x, training=None):
  """The same call traced into a tf.function (the way a layer inside a compiled model runs it)."""
  x = tf.constant(np.asarray(x, dtype=np.float32))

  @tf.function
  def f(t):
    return q(t)
  y = f(x)
  return np.asarray(y.numpy(), dtype=np.float32)


def as_np(v):
  if v is None:
    return None
  if hasattr(v, "numpy"):
    v = v.numpy()
  return np.asarray(v)


def alpha_class(alpha):
  if alpha is None:
    return "none"
  if isinstance(alpha, str):
    return alpha
  a = float(alpha)
  if a == 1.0:
    return "one"
  m = np.frexp(a)[0]
  return "po2" if m == 0.5 else "const"


def random_tensors(rng, n, scale, ranks=(1, 2, 3, 4), bound=None):
  """Random float32 tensors of every rank, several distributions."""
  out = []
  for i in range(n):
    rank = ranks[i % len(ranks)]
    shape = tuple(int(rng.integers(1, 6)) for _ in range(rank))
    kind = i % 5
    if kind == 0:
      x = rng.normal(0, scale, size=shape)
    elif kind == 1:
      x = rng.uniform(-4 * scale, 4 * scale, size=shape)
    elif kind == 2:
      x = rng.standard_cauchy(size=shape) * scale
      x = np.clip(x, -scale * 2.0 ** 20, scale * 2.0 ** 20)
    elif kind == 3:
      x = np.full(shape, rng.normal(0, scale))
    else:
      x = np.zeros(shape)
      x.flat[int(rng.integers(0, x.size))] = rng.normal(0, 8 * scale)
    if bound is not None:
      x = np.clip(x, -bound * 0.99, bound * 0.99)
    out.append(x.astype(np.float32))
  return out
