"""TF-side helpers shared by the quantizer-level monitors."""
import contextlib

import numpy as np
import tensorflow as tf

from qkeras import quantizers as Q
from qkeras import quantizer_registry


def get_class(name):
  return quantizer_registry.lookup_quantizer(name)


def build(cfg):
  kw = dict(cfg["kw"])
  return get_class(cfg["cls"])(**kw)


@contextlib.contextmanager
def sigmoid_mode(mode):
  mode = mode or "hard"
  if mode != "hard":
    Q.set_internal_sigmoid(mode)
  try:
    yield
  finally:
    if mode != "hard":
      Q.set_internal_sigmoid("hard")


def call(q, x):
  """Eager call, float32 numpy in / out."""
  y = q(tf.constant(np.asarray(x, dtype=np.float32)))
  return np.asarray(y.numpy() if hasattr(y, "numpy") else y, dtype=np.float32)


def as_np(v):
  if v is None:
    return None
  if hasattr(v, "numpy"):
    v = v.numpy()
  return np.asarray(v)


def alpha_class(alpha):
  if alpha is None:
    return "none"
  if isinstance(alpha, str):
    return alpha
  a = float(alpha)
  if a == 1.0:
    return "one"
  m = np.frexp(a)[0]
  return "po2" if m == 0.5 else "const"


def random_tensors(rng, n, scale, ranks=(1, 2, 3, 4), bound=None):
  """Random float32 tensors of every rank, several distributions."""
  out = []
  for i in range(n):
    rank = ranks[i % len(ranks)]
    shape = tuple(int(rng.integers(1, 6)) for _ in range(rank))
    kind = i % 5
    if kind == 0:
      x = rng.normal(0, scale, size=shape)
    elif kind == 1:
      x = rng.uniform(-4 * scale, 4 * scale, size=shape)
    elif kind == 2:
      x = rng.standard_cauchy(size=shape) * scale
      x = np.clip(x, -scale * 2.0 ** 20, scale * 2.0 ** 20)
    elif kind == 3:
      x = np.full(shape, rng.normal(0, scale))
    else:
      x = np.zeros(shape)
      x.flat[int(rng.integers(0, x.size))] = rng.normal(0, 8 * scale)
    if bound is not None:
      x = np.clip(x, -bound * 0.99, bound * 0.99)
    out.append(x.astype(np.float32))
  return out
