"""Worker process: imports /repo, installs monitors, runs its share of cases."""
import faulthandler
import hashlib
import importlib
import json
import os
import random
import sys
import time
import traceback


class RepoRaised(Exception):
  """Internal marker: repository code raised on an in-domain case."""


class Ctx(object):
  """Collects what the monitors observed in this worker."""

  def __init__(self, pid, tier, seed, widx, nworkers, repo_root, keras3=False):
    self.pid, self.tier, self.seed = pid, tier, seed
    self.widx, self.nworkers = widx, nworkers
    self.repo_root = os.path.realpath(repo_root)
    self.keras3 = keras3
    self.counters = {}
    self.skipped = {}
    self.violations = {}
    self.samples = []
    self.observations = {}
    self.sets = {}
    self.hashes = set()
    self.evaluations = 0
    self.cases = 0
    self.harness_errors = []
    self.case = None
    self.state = {}

  # -- counters ------------------------------------------------------------
  def count(self, name, n=1):
    self.counters[name] = self.counters.get(name, 0) + int(n)

  def skip(self, name, n=1):
    self.skipped[name] = self.skipped.get(name, 0) + int(n)

  def evals(self, n=1):
    self.evaluations += int(n)

  def seen(self, name, value):
    s = self.sets.setdefault(name, set())
    if len(s) < 4096:
      s.add(value)

  def nontrivial(self, *key):
    """Registers one distinct non-trivial case (hashed; merged by the parent)."""
    h = hashlib.blake2b(repr(key).encode(), digest_size=8).digest()
    self.hashes.add(int.from_bytes(h, "little"))

  def nontrivial_many(self, prefix, arr):
    """Vectorised: one hash per element of a numpy array (bytes of the value)."""
    import numpy as np
    a = np.ascontiguousarray(arr)
    p = int.from_bytes(hashlib.blake2b(repr(prefix).encode(), digest_size=8).digest(), "little")
    v = a.view(np.uint32).astype(np.uint64) if a.dtype == np.float32 else \
        a.astype(np.float64).view(np.uint64)
    mixed = (v * np.uint64(0x9E3779B97F4A7C15)) ^ np.uint64(p)
    self.hashes.update(int(x) for x in np.unique(mixed))

  def sample(self, obj):
    if len(self.samples) < 3:
      self.samples.append(obj)

  def observe(self, name, example=None):
    slot = self.observations.setdefault(name, {"count": 0, "example": None})
    slot["count"] += 1
    if slot["example"] is None and example is not None:
      slot["example"] = example

  # -- verdicts ------------------------------------------------------------
  def violation(self, sig, msg, witness=None):
    key = json.dumps(sig, sort_keys=True, default=str)
    slot = self.violations.setdefault(
        key, {"sig": sig, "msg": msg, "count": 0, "witnesses": []})
    slot["count"] += 1
    if len(slot["witnesses"]) < 2:
      w = {"case": self.case, "detail": witness}
      slot["witnesses"].append(w)

  def repo_frame(self, tb):
    """Innermost traceback frame that lies in the repository."""
    name = None
    for fs in traceback.extract_tb(tb):
      fn = os.path.realpath(fs.filename)
      if fn.startswith(self.repo_root + os.sep):
        name = "%s:%s" % (os.path.relpath(fn, self.repo_root), fs.name)
    return name

  def call(self, sigbase, fn, *args, **kwargs):
    """Calls repository code.  Returns (True, value) or, when repository code
    raised, records a violation of kind 'raises' and returns (False, exc).
    `allowed` exception classes (documented rejections) are returned without a
    violation as (False, exc)."""
    allowed = kwargs.pop("_allowed", ())
    try:
      return True, fn(*args, **kwargs)
    except allowed as e:  # pylint: disable=catching-non-exception
      return False, e
    except Exception as e:  # pylint: disable=broad-except
      where = self.repo_frame(e.__traceback__)
      if where is None:
        raise
      sig = dict(sigbase)
      sig.update({"kind": "raises", "exc": type(e).__name__, "where": where})
      self.violation(sig, "%s: %s" % (type(e).__name__, str(e)[:300]),
                     {"traceback": traceback.format_exc()[-1500:]})
      return False, e

  def dump(self, outdir):
    import numpy as np
    hf = os.path.join(outdir, "w%d.hash.npy" % self.widx)
    np.save(hf, np.fromiter(self.hashes, dtype=np.uint64, count=len(self.hashes)))
    reach = {}
    mon = self.state.get("reach")
    if mon is not None:
      reach = mon.report()
    out = {
        "counters": self.counters, "skipped": self.skipped,
        "violations": list(self.violations.values()),
        "samples": self.samples, "observations": self.observations,
        "sets": {k: sorted(v, key=str) for k, v in self.sets.items()},
        "evaluations": self.evaluations, "cases": self.cases,
        "harness_errors": self.harness_errors, "hash_file": hf, "reach": reach,
    }
    tmp = os.path.join(outdir, "w%d.json.tmp" % self.widx)
    with open(tmp, "w") as f:
      json.dump(out, f, default=str)
    os.replace(tmp, os.path.join(outdir, "w%d.json" % self.widx))


def main(argv):
  pid, tier, seed, widx, nworkers, outdir = argv[:6]
  seed, widx, nworkers = int(seed), int(widx), int(nworkers)
  rest = argv[6:]
  replay = rest[rest.index("--replay") + 1] if "--replay" in rest else None
  keras3 = "--keras3" in rest
  repo_root = os.environ.get("VERIF_REPO_ROOT", "/repo")
  mod = importlib.import_module("vf.props.%s" % pid.lower())
  hard = getattr(mod, "TIMEOUT", {}).get(tier, 900 if tier == "quick" else 5400)
  faulthandler.dump_traceback_later(hard + 30, exit=True)

  random.seed(seed * 1000003 + widx)
  import numpy as np
  np.random.seed((seed * 1000003 + widx) % (2 ** 32))

  ctx = Ctx(pid, tier, seed, widx, nworkers, repo_root, keras3=keras3)
  try:
    import qkeras  # noqa: F401  (the tree under test)
    got = os.path.realpath(os.path.dirname(qkeras.__file__))
    if not got.startswith(ctx.repo_root + os.sep):
      raise RuntimeError("qkeras imported from %s, expected %s" % (got, ctx.repo_root))
    import tensorflow as tf
    tf.random.set_seed(seed)
    try:
      tf.debugging.disable_traceback_filtering()   # keep repository frames visible in tracebacks
    except Exception:  # pylint: disable=broad-except
      pass
    try:
      tf.config.threading.set_intra_op_parallelism_threads(1)
      tf.config.threading.set_inter_op_parallelism_threads(1)
    except RuntimeError:
      pass
  except Exception:  # pylint: disable=broad-except
    ctx.harness_errors.append({"where": "import", "err": traceback.format_exc()[-2000:]})
    ctx.dump(outdir)
    return 0

  from vf.monitors import reach as reach_mod
  try:
    ctx.state["reach"] = reach_mod.install(getattr(mod, "ANCHORS", []), ctx.repo_root)
  except Exception:  # pylint: disable=broad-except
    ctx.harness_errors.append({"where": "reach.install", "err": traceback.format_exc()[-2000:]})
  try:
    if hasattr(mod, "setup"):
      mod.setup(ctx)
  except Exception:  # pylint: disable=broad-except
    ctx.harness_errors.append({"where": "setup", "err": traceback.format_exc()[-2000:]})
    ctx.dump(outdir)
    return 0

  if replay:
    with open(replay) as f:
      rp = json.load(f)
    todo = [w["case"] for w in rp.get("witnesses", []) if w.get("case") is not None]
  else:
    sub = int(os.environ.get("VERIF_SUBSAMPLE", "1") or 1)   # debugging aid: run every sub-th case only
    todo = (c for i, c in enumerate(mod.cases(tier, seed, keras3=keras3)
                                    if keras3 else mod.cases(tier, seed))
            if (i // sub) % nworkers == widx and i % sub == 0)
  t_end = time.time() + hard - 20
  for case in todo:
    if time.time() > t_end:
      ctx.harness_errors.append({"where": "budget", "err": "worker ran out of time before finishing its cases"})
      break
    ctx.case = case
    ctx.cases += 1
    try:
      mod.run_case(case, ctx)
    except Exception:  # pylint: disable=broad-except
      ctx.harness_errors.append({"where": "run_case %s" % json.dumps(case, default=str)[:300],
                                 "err": traceback.format_exc()[-2500:]})
      if len(ctx.harness_errors) > 20:
        break
  ctx.case = None
  try:
    if hasattr(mod, "finalize"):
      mod.finalize(ctx)
  except Exception:  # pylint: disable=broad-except
    ctx.harness_errors.append({"where": "finalize", "err": traceback.format_exc()[-2000:]})
  ctx.dump(outdir)
  return 0


if __name__ == "__main__":
  sys.exit(main(sys.argv[1:]))
