"""Functional comparison of two quantizer objects (used by C09, C10, C13)."""
import inspect

import numpy as np


def probes(seed=0):
  rng = np.random.default_rng(1234 + seed)
  ps = [rng.normal(0, 1.0, size=(8,)), rng.normal(0, 1.0, size=(6, 4)), rng.normal(0, 8.0, size=(6, 4)),
        rng.normal(0, 0.05, size=(4, 3)), rng.normal(0, 1.5, size=(2, 2, 4, 4)), rng.uniform(-3, 3, size=(2, 4, 3))]
  ps[1][:, 0] = 0.0
  ps[0][:3] = [0.0, 0.5, -0.5]
  return [p.astype(np.float32) for p in ps]


def ctor_params(cls):
  return [p for p in inspect.signature(cls.__init__).parameters if p != "self"]


def _norm(v):
  if hasattr(v, "numpy"):
    v = v.numpy()
  if isinstance(v, np.ndarray):
    return ("array", np.round(v.astype(np.float64), 9).tolist())
  if isinstance(v, (np.floating, np.integer, np.bool_)):
    v = v.item()
  if isinstance(v, bool):
    return int(v)
  if isinstance(v, float) and v == int(v):
    return int(v)
  if isinstance(v, (list, tuple)):
    return [_norm(e) for e in v]
  return v


def attr(obj, name):
  for n in (name, "_" + name):
    if n in vars(obj) or hasattr(type(obj), n) or hasattr(obj, n):
      try:
        return True, getattr(obj, n)
      except Exception:  # pylint: disable=broad-except
        pass
  return False, None


def differing_options(a, b):
  out = []
  for p in ctor_params(type(a)):
    ha, va = attr(a, p)
    hb, vb = attr(b, p)
    if not (ha and hb):
      continue
    try:
      if _norm(va) != _norm(vb):
        out.append(p)
    except Exception:  # pylint: disable=broad-except
      out.append(p)
  return out


def compare(q1, q2, call, as_np, seed=0):
  """Returns dict(kind=None|'output_diff'|'scale_diff'|'raises_only_in_copy', detail, n_compared, n_skipped)."""
  n_cmp = n_skip = 0
  float_path = False
  for x in probes(seed):
    try:
      y1 = call(q1, x)
      s1 = as_np(getattr(q1, "scale", None))
    except Exception:  # pylint: disable=broad-except
      n_skip += 1
      continue
    try:
      y2 = call(q2, x)
      s2 = as_np(getattr(q2, "scale", None))
    except Exception as e:  # pylint: disable=broad-except
      return {"kind": "raises_only_in_copy", "detail": "%s: %s" % (type(e).__name__, str(e)[:200]),
              "shape": list(x.shape), "n_compared": n_cmp, "n_skipped": n_skip}
    n_cmp += 1
    if y1.shape != y2.shape:
      return {"kind": "output_diff", "detail": "output shapes %s vs %s" % (y1.shape, y2.shape),
              "shape": list(x.shape), "n_compared": n_cmp, "n_skipped": n_skip}
    if y1.shape != x.shape:
      # a frozen / tensor-valued scale of another shape broadcast the output: compare as is
      xb = np.broadcast_to(x.reshape((1,) * (y1.ndim - x.ndim) + x.shape) if y1.ndim >= x.ndim else x.ravel()[:1], y1.shape) \
          if y1.ndim >= x.ndim else np.zeros(y1.shape, np.float32)
    else:
      xb = x
    if not np.array_equal(y1, y2, equal_nan=True):
      d = np.abs(y1.astype(np.float64) - y2.astype(np.float64))
      i = int(np.nanargmax(d))
      # x + (-x + xq) carries a rounding error of up to one ulp of x: the two float
      # paths (STE / non-STE, Variable / constant factor) may differ by that much
      ulp = np.spacing(np.maximum(np.maximum(np.abs(y1), np.abs(y2)), np.abs(xb)).astype(np.float32)).astype(np.float64)
      if np.all(d <= 4 * ulp):
        float_path = True
      else:
        return {"kind": "output_diff", "detail": "x=%r: original %r, copy %r" % (float(np.asarray(xb).flat[i]), float(y1.flat[i]), float(y2.flat[i])),
                "shape": list(x.shape), "n_compared": n_cmp, "n_skipped": n_skip}
    if (s1 is None) != (s2 is None):
      return {"kind": "scale_diff", "detail": "scale %r vs %r" % (s1, s2), "shape": list(x.shape),
              "n_compared": n_cmp, "n_skipped": n_skip}
    if s1 is not None:
      a1, a2 = np.asarray(s1, dtype=np.float64), np.asarray(s2, dtype=np.float64)
      if a1.shape != a2.shape or not np.allclose(a1, a2, rtol=1e-6, atol=0, equal_nan=True):
        return {"kind": "scale_diff", "detail": "scale %r vs %r" % (a1.ravel()[:4].tolist(), a2.ravel()[:4].tolist()),
                "shape": list(x.shape), "n_compared": n_cmp, "n_skipped": n_skip}
  return {"kind": None, "float_path": float_path, "n_compared": n_cmp, "n_skipped": n_skip}
