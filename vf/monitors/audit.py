"""Execution monitor for C10: sys.addaudithook + canaries.

Audit hooks cannot be removed, so one hook is installed per worker and only
records while `armed`.  Events that mean "text was executed as code":
exec / compile whose source carries the payload marker, os.system,
subprocess.Popen, os.exec*, os.posix_spawn, ctypes.dlopen, open() of the
canary path, import of a module that was not loaded before arming.
"""
import sys

STATE = {"armed": False, "marker": None, "canary": None, "events": [], "installed": False,
         "modules": None, "seen": 0}
WATCH = ("exec", "compile", "os.system", "subprocess.Popen", "os.exec", "os.posix_spawn", "os.spawn",
         "ctypes.dlopen", "open", "import", "builtins.input", "os.remove", "os.rename", "shutil.", "socket.")


def _hook(event, args):
  if not STATE["armed"]:
    return
  STATE["seen"] += 1
  if not event.startswith(WATCH):
    return
  try:
    if event in ("exec", "compile"):
      src = args[0]
      if event == "exec":
        src = getattr(src, "co_consts", src)
      text = repr(src)
      if STATE["marker"] and STATE["marker"] in text:
        STATE["events"].append((event, text[:200]))
    elif event == "open":
      if STATE["canary"] and str(args[0]) == STATE["canary"]:
        STATE["events"].append((event, str(args[0])))
    elif event == "import":
      name = args[0]
      if name in ("os", "subprocess", "ctypes", "socket", "shutil", "pty") and STATE["marker_seen_import"]:
        STATE["events"].append((event, name))
    else:
      STATE["events"].append((event, repr(args)[:200]))
  except Exception:  # pylint: disable=broad-except
    pass


def install():
  if not STATE["installed"]:
    sys.addaudithook(_hook)
    STATE["installed"] = True


class armed(object):
  """with audit.armed(marker, canary) as events: ..."""

  def __init__(self, marker, canary):
    self.marker, self.canary = marker, canary

  def __enter__(self):
    install()
    STATE["events"] = []
    STATE["marker"] = self.marker
    STATE["canary"] = self.canary
    STATE["marker_seen_import"] = False
    STATE["armed"] = True
    return STATE["events"]

  def __exit__(self, *a):
    STATE["armed"] = False
    return False
