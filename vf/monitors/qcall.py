"""Quantizer-call monitor: wraps __call__ of every registered quantizer class.

Eager calls are recorded (class, object id, digest of the input, output) while
a recording is open, so that a property can check *which quantizer object was
applied to which tensor* inside library code it does not control (layers,
export, qtools).  Symbolic calls (KerasTensor / graph) pass straight through
and are only counted.  Online invariant on every eager event: a finite input
gives a finite output.
"""
import hashlib

import numpy as np

STATE = {"installed": False, "recording": None, "counts": {}, "symbolic": 0, "nonfinite": []}


def digest(a):
  a = np.ascontiguousarray(np.asarray(a, dtype=np.float32))
  return hashlib.blake2b(a.tobytes() + str(a.shape).encode(), digest_size=8).hexdigest()


def install():
  if STATE["installed"]:
    return
  from qkeras import quantizer_registry
  from vf.gen import qlattice
  for name in qlattice.DOMAIN:
    cls = quantizer_registry.lookup_quantizer(name)
    if "__call__" not in vars(cls):
      continue
    orig = cls.__call__

    def make(orig, name):
      def wrapped(self, x, *a, **k):
        y = orig(self, x, *a, **k)
        try:
          eager = hasattr(x, "numpy") or isinstance(x, (np.ndarray, float, int))
          if not eager:
            STATE["symbolic"] += 1
            return y
          if type(self).__name__ != name:
            return y            # subclass calling its parent: one event per outermost class
          STATE["counts"][name] = STATE["counts"].get(name, 0) + 1
          xn = np.asarray(x.numpy() if hasattr(x, "numpy") else x, dtype=np.float32)
          yn = np.asarray(y.numpy() if hasattr(y, "numpy") else y)
          if np.all(np.isfinite(xn)) and not np.all(np.isfinite(yn)):
            if len(STATE["nonfinite"]) < 5:
              STATE["nonfinite"].append((name, str(self) if name not in ("quantized_hswish",) else name, xn.ravel()[:4].tolist()))
          rec = STATE["recording"]
          if rec is not None:
            rec.append({"cls": name, "qid": id(self), "in": digest(xn), "shape": tuple(xn.shape)})
        except Exception:  # pylint: disable=broad-except
          pass
        return y
      wrapped.__wrapped__ = orig
      return wrapped

    cls.__call__ = make(orig, name)
  STATE["installed"] = True


class recording(object):
  def __enter__(self):
    self.events = []
    STATE["recording"] = self.events
    return self.events

  def __exit__(self, *a):
    STATE["recording"] = None
    return False


def flush_counts(ctx):
  for k, v in STATE["counts"].items():
    ctx.count("qcall.events." + k, v)
  ctx.count("qcall.symbolic_passthrough", STATE["symbolic"])
  STATE["counts"] = {}
  STATE["symbolic"] = 0
  for (name, s, x) in STATE["nonfinite"]:
    ctx.violation({"kind": "online_invariant_finite_output", "cls": name},
                  "%s returned a non-finite value for finite input %r" % (s, x), None)
  STATE["nonfinite"] = []
