"""Snapshot / compare hooks: deep digests of caller-owned state around calls that promise not to modify it."""
import hashlib
import json

import numpy as np


def plain(o):
  """JSON-able, order-stable image of a config-like object."""
  if isinstance(o, dict):
    return {str(k): plain(v) for k, v in sorted(o.items(), key=lambda kv: str(kv[0]))}
  if isinstance(o, (list, tuple)):
    return [plain(v) for v in o]
  if isinstance(o, np.ndarray):
    return {"__ndarray__": o.tolist()}
  if isinstance(o, (np.floating, np.integer, np.bool_)):
    return o.item()
  if isinstance(o, (str, int, float, bool)) or o is None:
    return o
  if hasattr(o, "numpy"):
    try:
      return {"__tensor__": np.asarray(o.numpy()).tolist()}
    except Exception:  # pylint: disable=broad-except
      pass
  if hasattr(o, "get_config"):
    try:
      return {"__class__": type(o).__name__, "config": plain(o.get_config())}
    except Exception:  # pylint: disable=broad-except
      pass
  return {"__repr__": type(o).__name__}


def _h(s):
  return hashlib.blake2b(s, digest_size=12).hexdigest()


def take(model=None, objects=None):
  snap = {}
  if model is not None:
    snap["model.json"] = _h(model.to_json().encode())
    snap["model.weights"] = [_h(np.ascontiguousarray(w).tobytes() + str(w.shape).encode()) for w in model.get_weights()]
    snap["model.layer_names"] = [l.name for l in model.layers]
  for k, v in (objects or {}).items():
    snap["object." + k] = _h(json.dumps(plain(v), sort_keys=True).encode())
  return snap


def diff(a, b):
  return sorted(k for k in set(a) | set(b) if a.get(k) != b.get(k))
