"""Postcondition contracts on pure-Python repository functions.

`install_post(cls, "method", condition)` replaces `cls.method` by a version that
evaluates `condition` after every call.  `condition` takes any subset of the
method's argument names plus `result` (icontract's convention) and returns a
bool; a False result raises `ContractFail` out of the call.  icontract
(`icontract.ensure`) does the work when it can be imported; otherwise an
equivalent plain wrapper built on `inspect.signature` is used, so a missing
wheel can never become a false alarm.  `uninstall_all()` restores the originals.
"""
import functools
import inspect

try:
  import icontract  # noqa: F401
  HAVE_ICONTRACT = True
except Exception:  # pylint: disable=broad-except
  icontract = None
  HAVE_ICONTRACT = False


class ContractFail(AssertionError):
  """A postcondition installed by the monitors evaluated to False."""


_INSTALLED = []


def _plain_ensure(fn, condition, description):
  sig = inspect.signature(fn)
  want = list(inspect.signature(condition).parameters)

  @functools.wraps(fn)
  def wrapper(*args, **kwargs):
    result = fn(*args, **kwargs)
    bound = sig.bind(*args, **kwargs)
    bound.apply_defaults()
    env = dict(bound.arguments)
    env["result"] = result
    if not condition(**{k: env[k] for k in want}):
      raise ContractFail(description)
    return result

  return wrapper


def install_post(cls, name, condition, description, force_plain=False):
  """Installs the postcondition on `cls.name`; returns the engine used."""
  orig = cls.__dict__[name]
  if HAVE_ICONTRACT and not force_plain:
    wrapped = icontract.ensure(condition, description, error=lambda: ContractFail(description))(orig)
    engine = "icontract %s" % getattr(icontract, "__version__", "?")
  else:
    wrapped = _plain_ensure(orig, condition, description)
    engine = "plain wrapper"
  setattr(cls, name, wrapped)
  _INSTALLED.append((cls, name, orig))
  return engine


def original(cls, name):
  """The undecorated function (first installed original), or the current attribute."""
  for c, n, orig in _INSTALLED:
    if c is cls and n == name:
      return orig
  return cls.__dict__[name]


def uninstall_all():
  while _INSTALLED:
    cls, name, orig = _INSTALLED.pop()
    setattr(cls, name, orig)
