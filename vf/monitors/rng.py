"""Controlled stream for the library's only source of randomness.

QKeras draws exclusively through `tf.random.uniform`; `qkeras.quantizers.tf`
is `tensorflow.compat.v2`, whose `.random` module object differs from
`tensorflow.random`, so `uniform` is replaced on both (and restored).  Modes:

  real  - a seeded genuine draw (realistic schedules)
  grid  - the j-th repetition returns u_j = (j + 1/2) / K everywhere, which makes
          "unbiased" a deterministic statement: the mean over j of
          where(frac < u_j, floor, ceil) equals the input to within 1/K step.
"""
import contextlib

import tensorflow as tf
import tensorflow.compat.v2 as tfc


class Stream(object):

  def __init__(self):
    self.mode = "real"
    self.u = 0.5
    self.calls = 0
    self.seed = 0

  def set_grid(self, j, k):
    self.mode = "grid"
    self.u = (j + 0.5) / k

  def set_const(self, u):
    """Every draw returns u (extreme but legal draws: 0 and the largest float32 below 1)."""
    self.mode = "grid"
    self.u = float(u)

  def set_real(self, seed):
    self.mode = "real"
    self.seed = seed
    tf.random.set_seed(seed)


@contextlib.contextmanager
def controlled():
  st = Stream()
  orig_a, orig_b = tf.random.uniform, tfc.random.uniform

  def fake(shape, minval=0, maxval=None, dtype=tf.float32, seed=None, name=None):
    st.calls += 1
    if st.mode == "real":
      return orig_a(shape, minval=minval, maxval=maxval, dtype=dtype, seed=seed, name=name)
    mx = 1.0 if maxval is None else maxval
    lo = tf.cast(minval, dtype)
    return lo + tf.cast(st.u, dtype) * (tf.cast(mx, dtype) - lo) * tf.ones(shape, dtype)

  tf.random.uniform = fake
  tfc.random.uniform = fake
  try:
    yield st
  finally:
    tf.random.uniform = orig_a
    tfc.random.uniform = orig_b
