"""Reach monitor: which lines of the anchored functions did the workload run?

sys.monitoring (PEP 669) LINE events are enabled *locally* on the live code
objects that overlap an anchor's line range; the callback records the line and
returns DISABLE, so each line costs one callback in the whole run.  An
anchored region with zero executed lines makes the run inconclusive.
"""
import importlib
import os
import sys
import types

TOOL = 4


def _codes_of(obj, seen):
  out = []

  def add_code(co):
    if id(co) in seen:
      return
    seen.add(id(co))
    out.append(co)
    for c in co.co_consts:
      if isinstance(c, types.CodeType):
        add_code(c)

  def visit(v):
    if isinstance(v, (staticmethod, classmethod)):
      v = v.__func__
    if isinstance(v, property):
      for f in (v.fget, v.fset, v.fdel):
        if f is not None:
          visit(f)
      return
    f = getattr(v, "__wrapped__", None)
    if f is not None and f is not v:
      visit(f)
    co = getattr(v, "__code__", None)
    if isinstance(co, types.CodeType):
      add_code(co)

  if isinstance(obj, type):
    for v in list(vars(obj).values()):
      visit(v)
  else:
    visit(obj)
  return out


class Reach(object):

  def __init__(self):
    self.hit = {}      # anchor name -> set(lines)
    self.total = {}    # anchor name -> set(lines)
    self.by_code = {}  # code id -> [(name, start, end)]
    self.active = False

  def report(self):
    return {k: {"lines_hit": sorted(self.hit.get(k, ())),
                "lines_total": len(self.total[k])} for k in self.total}


def install(anchors, repo_root):
  """anchors: list of (relative file, first line, last line)."""
  mon = Reach()
  if not anchors or not hasattr(sys, "monitoring"):
    return mon
  try:
    sys.monitoring.use_tool_id(TOOL, "vf-reach")
  except ValueError:
    pass
  E = sys.monitoring.events

  def on_line(code, line):
    for name, a, b in mon.by_code.get(id(code), ()):
      if a <= line <= b:
        mon.hit.setdefault(name, set()).add(line)
    return sys.monitoring.DISABLE

  sys.monitoring.register_callback(TOOL, E.LINE, on_line)
  by_file = {}
  for rel, a, b in anchors:
    by_file.setdefault(rel, []).append((a, b))
  for rel, ranges in by_file.items():
    modname = rel[:-3].replace("/", ".")
    try:
      m = importlib.import_module(modname)
    except Exception:  # pylint: disable=broad-except
      for a, b in ranges:
        mon.total["%s:%d-%d" % (rel, a, b)] = set()
      continue
    seen = set()
    codes = []
    for v in list(vars(m).values()):
      if getattr(v, "__module__", None) == m.__name__ or isinstance(v, type) and v.__module__ == m.__name__:
        codes.extend(_codes_of(v, seen))
    for a, b in ranges:
      name = "%s:%d-%d" % (rel, a, b)
      mon.total[name] = set()
      for co in codes:
        lines = {ln for (_, _, ln) in co.co_lines() if ln is not None}
        inside = {ln for ln in lines if a <= ln <= b and ln != co.co_firstlineno}
        if not inside:
          continue
        mon.total[name].update(inside)
        mon.by_code.setdefault(id(co), []).append((name, a, b))
        mon.by_code.setdefault("keep", []).append(co)
        sys.monitoring.set_local_events(TOOL, co, E.LINE)
  mon.active = True
  return mon
