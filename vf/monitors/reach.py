"""Reach monitor: did the workload execute the anchored functions, and how much of them?

Anchors are given as (file, first line, last line) in the pinned snapshot of the repository;
`vf/anchor_map.json` (tools/build_anchor_map.py) translates each range to the qualified names of
the functions it overlaps, so the monitor survives line shifts caused by later commits.
sys.monitoring (PEP 669) LINE events are enabled *locally* on those live code objects; the
callback records the line and returns DISABLE, so each line costs one callback per run.
An anchored region whose functions executed no line at all makes the run inconclusive.
"""
import importlib
import json
import os
import sys
import types

TOOL = 4


def _all_codes(module):
  """qualname -> live code objects of a module (functions, methods, nested functions)."""
  out = {}
  seen = set()

  def add_code(co):
    if id(co) in seen:
      return
    seen.add(id(co))
    out.setdefault(co.co_qualname, []).append(co)
    for c in co.co_consts:
      if isinstance(c, types.CodeType):
        add_code(c)

  def visit(v, depth=0):
    if isinstance(v, (staticmethod, classmethod)):
      v = v.__func__
    if isinstance(v, property):
      for f in (v.fget, v.fset, v.fdel):
        if f is not None:
          visit(f)
      return
    if isinstance(v, type):
      if v.__module__ != module.__name__ or depth > 3:
        return
      for x in list(vars(v).values()):
        visit(x, depth + 1)
      return
    w = getattr(v, "__wrapped__", None)
    if w is not None and w is not v:
      visit(w, depth)
    co = getattr(v, "__code__", None)
    if isinstance(co, types.CodeType) and co.co_filename == getattr(module, "__file__", None):
      add_code(co)

  for v in list(vars(module).values()):
    visit(v)
  return out


class Reach(object):

  def __init__(self):
    self.hit = {}
    self.total = {}
    self.by_code = {}
    self.keep = []

  def report(self):
    return {k: {"lines_hit": sorted(self.hit.get(k, ())), "lines_total": len(self.total[k])}
            for k in self.total}


def install(anchors, repo_root):
  mon = Reach()
  if not anchors or not hasattr(sys, "monitoring"):
    return mon
  here = os.path.dirname(os.path.dirname(os.path.abspath(__file__)))
  with open(os.path.join(here, "anchor_map.json")) as f:
    amap = json.load(f)
  try:
    sys.monitoring.use_tool_id(TOOL, "vf-reach")
  except ValueError:
    pass
  E = sys.monitoring.events

  def on_line(code, line):
    for name in mon.by_code.get(id(code), ()):
      mon.hit.setdefault(name, set()).add((code.co_qualname, line))
    return sys.monitoring.DISABLE

  sys.monitoring.register_callback(TOOL, E.LINE, on_line)
  modules = {}
  for rel, a, b in anchors:
    name = "%s:%d-%d" % (rel, a, b)
    mon.total[name] = set()
    qualnames = amap.get(name, [])
    if rel not in modules:
      try:
        m = importlib.import_module(rel[:-3].replace("/", "."))
        modules[rel] = _all_codes(m)
      except Exception:  # pylint: disable=broad-except
        modules[rel] = {}
    for qn in qualnames:
      for co in modules[rel].get(qn, ()):
        lines = {ln for (_, _, ln) in co.co_lines() if ln and ln != co.co_firstlineno}
        mon.total[name].update((qn, ln) for ln in lines)
        mon.by_code.setdefault(id(co), []).append(name)
        mon.keep.append(co)
        sys.monitoring.set_local_events(TOOL, co, E.LINE)
  return mon
