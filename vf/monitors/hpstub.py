"""Recording / replaying stand-in for keras-tuner's `HyperParameters`.

A hyper-model asks the tuner for values through `hp.Choice(name, values,
default=...)`, `hp.Fixed(name, value)` (and, for completeness, `Boolean`,
`Int`, `Float`, `get`, `values`, `conditional_scope`, `name_scope`).  This stub
implements that subset with the semantics of keras-tuner 1.0.3 that matter to
the caller:

* a name that was asked before returns the value given before (one decision
  per name), whatever list is passed the second time;
* `Choice` validates like the real class (empty list -> ValueError, mixed
  types -> TypeError, default not among the values -> ValueError);
* the default of a `Choice` is `default` or the first value.

Every request is logged as a `Decision` (kind, name, values, default, answer,
index, source), so a monitor can (a) know the complete list of decision points
one run of the hyper-model went through, (b) compare the model that was built
with what the "tuner" answered and (c) replay other assignments:

* `dfs(run)` enumerates every leaf of the decision *tree* (later decision
  points may depend on earlier answers): it re-runs the hyper-model with a
  positional script that is advanced like an odometer on the branch points the
  previous run actually met;
* `product_scripts(radices, shard, nshards)` enumerates the leaves of a space
  whose shape does not depend on the answers (mixed radix), which allows the
  leaves to be split over worker processes; `shape_matches` verifies on every
  replay that the shape assumption held (if it did not, the caller falls back to
  `dfs`);
* `pairwise_rows(decisions, rnd, extra_random)` gives, for large spaces, a
  pairwise-covering set of assignments plus random ones, replayed by name.

No TensorFlow / keras-tuner import: the module is pure Python.
"""
import contextlib
import itertools


class Decision(object):
  __slots__ = ("kind", "name", "values", "default", "value", "index", "source")

  def __init__(self, kind, name, values, default, value, index, source):
    self.kind, self.name, self.values = kind, name, values
    self.default, self.value, self.index, self.source = default, value, index, source

  def as_json(self):
    return {"kind": self.kind, "name": self.name, "values": list(self.values),
            "value": self.value, "source": self.source}

  def __repr__(self):
    return "%s(%r, %r) -> %r [%s]" % (self.kind, self.name, self.values, self.value, self.source)


class HPStub(object):
  """`script`: list of value indexes consumed by the branch points in the order
  they are met; `by_name`: {name: value}; what neither covers is answered by
  `fallback`: 'default' (tuner default: `default` or first value), 'first',
  'last' or a `random.Random`."""

  def __init__(self, script=None, by_name=None, fallback="default"):
    self.script = list(script or [])
    self.by_name = dict(by_name or {})
    self.fallback = fallback
    self.log = []          # every request, in order
    self.values = {}       # name -> value (what keras-tuner exposes as hp.values)
    self.pos = 0           # next script position
    self.anomalies = []    # things a real tuner would accept silently but a monitor wants to know
    self._scopes = []

  # ------------------------------------------------------------------ helpers
  def _full(self, name):
    return "/".join(self._scopes + [str(name)])

  def _answer(self, kind, name, values, default):
    name = self._full(name)
    values = list(values)
    if name in self.values:
      v = self.values[name]
      first = next(d for d in self.log if d.name == name and d.source != "repeat")
      if list(first.values) != values:
        self.anomalies.append({"what": "same name asked with another value list", "name": name,
                               "first": list(first.values), "again": values})
      self.log.append(Decision(kind, name, values, default, v,
                               values.index(v) if v in values else -1, "repeat"))
      return v
    source = "fallback"
    idx = None
    if name in self.by_name and self.by_name[name] in values:
      idx, source = values.index(self.by_name[name]), "name"
    elif self.pos < len(self.script):
      idx, source = self.script[self.pos], "script"
      if not 0 <= idx < len(values):
        self.anomalies.append({"what": "script index outside the offered values", "name": name,
                               "index": idx, "n": len(values)})
        idx = idx % len(values)
    self.pos += 1
    if idx is None:
      fb = self.fallback
      if fb == "default":
        idx = values.index(default) if default in values else 0
      elif fb == "first":
        idx = 0
      elif fb == "last":
        idx = len(values) - 1
      else:
        idx = fb.randrange(len(values))
    v = values[idx]
    self.values[name] = v
    self.log.append(Decision(kind, name, values, default, v, idx, source))
    return v

  # --------------------------------------------------- keras-tuner's interface
  def Choice(self, name, values, ordered=None, default=None, parent_name=None, parent_values=None):
    if not values:
      raise ValueError("`values` must be provided.")
    values = list(values)
    if len(set(type(v) for v in values)) > 1:
      raise TypeError("A `Choice` can contain only one type of value, found values: %s" % (values,))
    if not isinstance(values[0], (str, int, float, bool)):
      raise TypeError("A `Choice` can contain only `int`, `float`, `str`, or `bool`, found %r" % (values[0],))
    if default is not None and default not in values:
      raise ValueError("The default value should be one of the choices. "
                       "You passed: values=%s, default=%s" % (values, default))
    return self._answer("Choice", name, values, default if default is not None else values[0])

  def Fixed(self, name, value, parent_name=None, parent_values=None):
    if not isinstance(value, (str, int, float, bool)):
      raise ValueError("`Fixed` value must be an `int`, `float`, `str`, or `bool`, found %r" % (value,))
    full = self._full(name)
    if full in self.values:
      v = self.values[full]
      self.log.append(Decision("Fixed", full, [value], value, v, 0 if v == value else -1, "repeat"))
      return v
    self.values[full] = value
    self.log.append(Decision("Fixed", full, [value], value, value, 0, "fixed"))
    return value

  def Boolean(self, name, default=False, parent_name=None, parent_values=None):
    return self._answer("Boolean", name, [False, True], bool(default))

  def Int(self, name, min_value, max_value, step=1, sampling=None, default=None,
          parent_name=None, parent_values=None):
    vals = list(range(int(min_value), int(max_value) + 1, int(step or 1)))
    return self._answer("Int", name, vals, default if default is not None else vals[0])

  def Float(self, name, min_value, max_value, step=None, sampling=None, default=None,
            parent_name=None, parent_values=None):
    if step:
      n = int((max_value - min_value) / step + 1e-9)
      vals = [min_value + i * step for i in range(n + 1)]
    else:
      vals = [float(min_value), (float(min_value) + float(max_value)) / 2.0, float(max_value)]
    return self._answer("Float", name, vals, default if default is not None else vals[0])

  def get(self, name):
    full = self._full(name)
    if full in self.values:
      return self.values[full]
    raise KeyError("{} does not exist.".format(name))

  __getitem__ = get

  def __contains__(self, name):
    return self._full(name) in self.values

  @contextlib.contextmanager
  def conditional_scope(self, parent_name, parent_values):
    yield

  @contextlib.contextmanager
  def name_scope(self, name):
    self._scopes.append(str(name))
    try:
      yield
    finally:
      self._scopes.pop()

  @property
  def space(self):
    return [d for d in self.log if d.source != "repeat"]

  # ------------------------------------------------------------- monitor side
  def decisions(self):
    """First request of every name (Choice / Fixed / ...), in order."""
    return [d for d in self.log if d.source != "repeat"]

  def branch_points(self):
    """Decisions that consumed a script position (everything but Fixed / repeats)."""
    return [d for d in self.log if d.source not in ("repeat", "fixed")]

  def shape(self):
    return [(d.name, len(d.values)) for d in self.branch_points()]

  def answers(self):
    return {d.name: d.value for d in self.decisions()}

  def asked(self, name):
    return sum(1 for d in self.log if d.name == name)


def next_script(stub):
  """Odometer step on the branch points the run of `stub` met; None when the
  run was the last leaf of the tree."""
  path = [(d.index, len(d.values)) for d in stub.branch_points()]
  j = len(path) - 1
  while j >= 0 and path[j][0] >= path[j][1] - 1:
    j -= 1
  if j < 0:
    return None
  return [p[0] for p in path[:j]] + [path[j][0] + 1]


def dfs(run, max_leaves=None, fallback="first"):
  """Depth-first enumeration of every assignment.  `run(stub)` executes the
  hyper-model; yields (stub, result) per leaf.  Each replay checks that the
  prefix it was given met the same decision points as the run it was derived
  from (a deterministic hyper-model); a difference is reported in
  `stub.anomalies`.  Stops after `max_leaves` (the caller then knows the
  enumeration was cut: the generator's `.exhausted` is not available, so the
  last yielded stub carries `.last_leaf`)."""
  script = []
  prev_shape = None
  n = 0
  while script is not None:
    stub = HPStub(script=script, fallback=fallback)
    result = run(stub)
    shape = stub.shape()
    if prev_shape is not None:
      k = len(script) - 1            # positions before the incremented one must agree
      if shape[:k + 1] != prev_shape[:k + 1]:
        stub.anomalies.append({"what": "replayed prefix met other decision points",
                               "expected": prev_shape[:k + 1], "got": shape[:k + 1]})
    prev_shape = shape
    script = next_script(stub)
    n += 1
    stub.last_leaf = script is None
    yield stub, result
    if max_leaves is not None and n >= max_leaves:
      return


def count_product(radices):
  n = 1
  for r in radices:
    n *= r
  return n


def product_scripts(radices, shard=0, nshards=1, limit=None):
  """Scripts (value indexes per branch point) of leaves shard, shard+nshards, ...
  of the mixed-radix space `radices` (last position varies fastest)."""
  total = count_product(radices)
  if limit is not None:
    total = min(total, limit)
  for leaf in range(shard, total, nshards):
    rest, script = leaf, []
    for r in reversed(radices):
      script.append(rest % r)
      rest //= r
    yield leaf, list(reversed(script))


def shape_matches(stub, names, radices):
  sh = stub.shape()
  return [s[0] for s in sh] == list(names) and [s[1] for s in sh] == list(radices)


def pairwise_rows(decisions, rnd, extra_random=0, candidates=24, max_rows=None):
  """Greedy pairwise covering array over `decisions` = [(name, values), ...]
  followed by `extra_random` uniformly random rows.  Returns (rows, number of
  covering rows, whether every pair of values of two decisions -- and every single
  value -- is covered); rows are {name: value}.  Deterministic for a seeded `rnd`
  (insertion-ordered dicts serve as ordered sets)."""
  dec = [(n, list(v)) for n, v in decisions if len(v) > 0]
  multi = [i for i, (_, v) in enumerate(dec) if len(v) > 1]
  pairs = list(itertools.combinations(multi, 2))
  uncovered = {}
  for a, b in pairs:
    for x in range(len(dec[a][1])):
      for y in range(len(dec[b][1])):
        uncovered[(a, x, b, y)] = True
  single = dict.fromkeys((a, x) for a in multi for x in range(len(dec[a][1])))
  rows = []

  def gain(row):
    g = sum(1 for a, b in pairs if (a, row[a], b, row[b]) in uncovered)
    return g + sum(1 for a in multi if (a, row[a]) in single)

  while (uncovered or single) and (max_rows is None or len(rows) < max_rows):
    best, best_g = None, -1
    head = list(itertools.islice(uncovered, 8))
    for c in range(candidates):
      row = [rnd.randrange(len(v)) for _, v in dec]
      if head:       # plant one still uncovered pair so that every row makes progress
        a, x, b, y = head[0] if c == 0 else head[rnd.randrange(len(head))]
        row[a], row[b] = x, y
      else:
        a, x = next(iter(single))
        row[a] = x
      g = gain(row)
      if g > best_g:
        best, best_g = row, g
    for a, b in pairs:
      uncovered.pop((a, best[a], b, best[b]), None)
    for a in multi:
      single.pop((a, best[a]), None)
    rows.append(best)
  n_pairwise = len(rows)
  for _ in range(extra_random):
    rows.append([rnd.randrange(len(v)) for _, v in dec])
  out = [{dec[i][0]: dec[i][1][ix] for i, ix in enumerate(row)} for row in rows]
  return out, n_pairwise, (not uncovered and not single)


def selftest():
  """Drives the stub with a toy hyper-model whose later decision points depend on
  earlier answers; returns (leaves seen by dfs, leaves expected)."""
  def toy(hp):
    a = hp.Choice("a", ["x", "y", "z"])
    out = [a]
    if a == "x":
      out.append(hp.Choice("b", [1, 2]))
    elif a == "y":
      out.append(hp.Fixed("c", 7))
      out.append(hp.Choice("d", [0.5, 1.0, 2.0], default=1.0))
      out.append(hp.Choice("a", ["q"]))          # repeated name -> first answer
    out.append(hp.Boolean("e"))
    return tuple(out)
  seen = [res for _, res in dfs(toy)]
  expected = set()
  for b in (1, 2):
    for e in (False, True):
      expected.add(("x", b, e))
  for d in (0.5, 1.0, 2.0):
    for e in (False, True):
      expected.add(("y", 7, d, "y", e))
  for e in (False, True):
    expected.add(("z", e))
  return seen, expected
